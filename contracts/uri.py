"""Sidecar contracts for core.URI (C19): location parsing / printing and their round trip."""
import z3
from pyvc.values import *
from pyvc.engine import Contract, Res, State, int_to_str
from pyvc.registry import R
from specs.strings import int_parses, int_val, int_facts, HEXCOLON, DIGITS

R.glob("Pyro5.config.NS_PORT", VInt(z3.Const("config_NS_PORT", IntS)), "configuration item")


def new_uri(st, name="u", fresh_state=False):
    u = st.new_obj("Pyro5.core.URI")
    return u


def opt_str(name):
    return VOpt(z3.Const(name + "_is_none", BoolS), VStr(z3.Const(name, StrS)))


def opt_int(name):
    return VOpt(z3.Const(name + "_is_none", BoolS), VInt(z3.Const(name, IntS)))


def field_terms(st, u):
    """(sockname_isnone, sockname, host_isnone, host, port_isnone, port) as z3 terms"""
    out = []
    for f, dflt in (("sockname", z3.StringVal("")), ("host", z3.StringVal("")), ("port", z3.IntVal(0))):
        v = st.get(u, f)
        if isinstance(v, VNone):
            out += [z3.BoolVal(True), dflt]
        elif isinstance(v, VOpt):
            out += [v.isnone, v.val.e]
        elif isinstance(v, VOpaque):       # value merged at a join: None or a boxed str / int
            out += [v.e == U_NONE, unbox_int(v.e) if f == "port" else unbox_str(v.e)]
        else:
            out += [z3.BoolVal(False), v.e]
    return out


@R.contract
class ParseLocation(Contract):
    name = "Pyro5.core.URI._parseLocation"
    props = ("C19",)
    no_join = True        # string obligations are solved per path (merged formulas go unknown)
    raises = {"Pyro5.errors.PyroError": "x_invalid"}
    trusted = ("str.partition / slicing / startswith as SMT string operations; int() via int_parses/int_val with int('%d' % n) == n; "
               "the IPv6 location regex as specified in specs/strings.py",)

    def setup(self, E, st):
        u = st.new_obj("Pyro5.core.URI", sockname=NONE, host=NONE, port=NONE)
        return {"self": u, "location": opt_str("location"), "defaultPort": opt_int("defaultPort")}

    def modifies(self, E, st, a):
        u = a["self"]
        return [(u, "sockname"), (u, "host"), (u, "port")]

    def prepare_call(self, E, st, a, outcome):
        u = a["self"]
        if outcome is None:
            st.set(u, "sockname", opt_str(fresh_name("sockname")))
            st.set(u, "host", opt_str(fresh_name("host")))
            st.set(u, "port", opt_int(fresh_name("port")))

    def spec(self, E, old, st, a):
        """the exact relation between `location`/`defaultPort` and the fields after a normal return"""
        loc = a["location"]
        dp = a["defaultPort"]
        empty = z3.Or(loc.isnone, z3.Length(loc.val.e) == 0) if isinstance(loc, VOpt) else (z3.Length(loc.e) == 0 if isinstance(loc, VStr) else z3.BoolVal(True))
        L = loc.val.e if isinstance(loc, VOpt) else (loc.e if isinstance(loc, VStr) else z3.StringVal(""))
        sn_none, sn, h_none, h, p_none, p = field_terms(st, a["self"])
        o_sn_none, o_sn, o_h_none, o_h, o_p_none, o_p = field_terms(old, a["self"])
        unix = z3.PrefixOf(z3.StringVal("./u:"), L)
        ipv6 = z3.PrefixOf(z3.StringVal("["), L)
        i = z3.IndexOf(L, z3.StringVal(":"), 0)
        plain_host = z3.If(i < 0, L, z3.SubString(L, 0, i))
        plain_port = z3.If(i < 0, z3.StringVal(""), z3.SubString(L, i + 1, z3.Length(L) - i - 1))
        dp_none = dp.isnone if isinstance(dp, VOpt) else z3.BoolVal(isinstance(dp, VNone))
        dp_val = dp.val.e if isinstance(dp, VOpt) else (dp.e if isinstance(dp, VInt) else z3.IntVal(0))
        port_from = lambda text: z3.If(z3.Length(text) == 0, z3.And(z3.Not(dp_none), p == dp_val), z3.And(int_parses(text), p == int_val(text)))   # noqa: E731
        rest = z3.Const("rest!v6", StrS)
        digits = z3.Const("digits!v6", StrS)
        tail = z3.Const("tail!v6", StrS)
        v6 = z3.Exists([rest], z3.And(
            L == z3.Concat(z3.StringVal("["), h, z3.StringVal("]"), rest), z3.Length(h) > 0, z3.InRe(h, z3.Plus(HEXCOLON)),
            z3.Not(z3.PrefixOf(z3.StringVal("[["), L)),
            z3.Or(z3.And(z3.Not(z3.And(z3.PrefixOf(z3.StringVal(":"), rest), z3.Length(rest) > 1, z3.InRe(z3.SubString(rest, 1, 1), DIGITS))),
                         z3.Not(dp_none), p == dp_val),
                  z3.Exists([digits, tail], z3.And(rest == z3.Concat(z3.StringVal(":"), digits, tail), z3.InRe(digits, z3.Plus(DIGITS)),
                                                   z3.Or(z3.Length(tail) == 0, z3.Not(z3.InRe(z3.SubString(tail, 0, 1), DIGITS))),
                                                   int_parses(digits), p == int_val(digits))))))
        return [("no location: fields untouched", z3.Implies(empty, z3.And(sn_none == o_sn_none, h_none == o_h_none, p_none == o_p_none))),
                ("unix socket: sockname is the text after './u:', non-empty and without ':'; host and port untouched", z3.Implies(z3.And(z3.Not(empty), unix), z3.And(
                    z3.Not(sn_none), sn == z3.SubString(L, 4, z3.Length(L) - 4), z3.Length(sn) > 0, z3.Not(z3.Contains(sn, z3.StringVal(":"))),
                    h_none == o_h_none, p_none == o_p_none))),
                ("host:port: host is the text before the first ':', port is int(rest) or the default port", z3.Implies(z3.And(z3.Not(empty), z3.Not(unix), z3.Not(ipv6)), z3.And(
                    z3.Not(h_none), h == plain_host, z3.Not(p_none), port_from(plain_port), sn_none == o_sn_none))),
                ("[ipv6]:port: host is the bracketed numeric address, port is the digit run after ']:' or the default port",
                 z3.Implies(z3.And(z3.Not(empty), z3.Not(unix), ipv6), z3.And(z3.Not(h_none), z3.Not(p_none), v6, sn_none == o_sn_none)))]

    def ensures(self, E, old, st, a, result):
        return self.spec(E, old, st, a)

    def x_invalid(self, E, old, st, a, exc):
        return []


@R.contract
class Location(Contract):
    name = "Pyro5.core.URI.location"
    props = ("C19",)
    raises = {}

    def setup(self, E, st):
        u = st.new_obj("Pyro5.core.URI", sockname=opt_str("sockname"), host=opt_str("host"), port=opt_int("port"))
        return {"self": u}

    def requires(self, E, st, a):
        sn_none, sn, h_none, h, p_none, p = field_terms(st, a["self"])
        return [("a host comes with a port (state produced by the parser)", z3.Implies(z3.Not(h_none), z3.Not(p_none)))]

    def result(self, E, st, a):
        return opt_str(fresh_name("location_text"))

    def text(self, st, a):
        sn_none, sn, h_none, h, p_none, p = field_terms(st, a["self"])
        has_colon = z3.Contains(h, z3.StringVal(":"))
        t = z3.If(z3.Not(h_none), z3.If(has_colon, z3.Concat(z3.StringVal("["), h, z3.StringVal("]:"), int_to_str(p)), z3.Concat(h, z3.StringVal(":"), int_to_str(p))),
                  z3.Concat(z3.StringVal("./u:"), sn))
        none = z3.And(h_none, z3.Or(sn_none, z3.Length(sn) == 0))
        return none, t

    def ensures(self, E, old, st, a, result):
        none, t = self.text(st, a)
        if isinstance(result, VNone):
            return [("None only without host and socket name", none)]
        if isinstance(result, VStr):
            return [("text form", z3.And(z3.Not(none), result.e == t))]
        return [("text form", z3.And(result.isnone == none, z3.Implies(z3.Not(none), result.val.e == t)))]


def invalid_location(E, L, dp_none):
    """exactly the inputs on which _parseLocation raises PyroError (non-empty L)"""
    unix = z3.PrefixOf(z3.StringVal("./u:"), L)
    ipv6 = z3.PrefixOf(z3.StringVal("["), L)
    i = z3.IndexOf(L, z3.StringVal(":"), 0)
    plain_port = z3.If(i < 0, z3.StringVal(""), z3.SubString(L, i + 1, z3.Length(L) - i - 1))
    sn = z3.SubString(L, 4, z3.Length(L) - 4)
    h, rest, digits, tail = z3.Consts("h!iv rest!iv digits!iv tail!iv", StrS)
    shape = z3.And(L == z3.Concat(z3.StringVal("["), h, z3.StringVal("]"), rest), z3.Length(h) > 0, z3.InRe(h, z3.Plus(HEXCOLON)))
    has_port = z3.And(z3.PrefixOf(z3.StringVal(":"), rest), z3.Length(rest) > 1, z3.InRe(z3.SubString(rest, 1, 1), DIGITS))
    port_bad = z3.Or(z3.And(z3.Not(has_port), dp_none),
                     z3.And(has_port, z3.Exists([digits, tail], z3.And(rest == z3.Concat(z3.StringVal(":"), digits, tail), z3.InRe(digits, z3.Plus(DIGITS)),
                                                                       z3.Or(z3.Length(tail) == 0, z3.Not(z3.InRe(z3.SubString(tail, 0, 1), DIGITS))),
                                                                       z3.Not(int_parses(digits))))))
    return z3.Or(z3.And(unix, z3.Or(z3.Length(sn) == 0, z3.Contains(sn, z3.StringVal(":")))),
                 z3.And(z3.Not(unix), ipv6, z3.Or(z3.PrefixOf(z3.StringVal("[["), L), z3.Not(z3.Exists([h, rest], shape)),
                                                  z3.Exists([h, rest], z3.And(shape, port_bad)))),
                 z3.And(z3.Not(unix), z3.Not(ipv6), z3.Or(z3.And(z3.Length(plain_port) == 0, dp_none),
                                                         z3.And(z3.Length(plain_port) > 0, z3.Not(int_parses(plain_port))))))


def _x_invalid(self, E, old, st, a, exc):
    loc, dp = a["location"], a["defaultPort"]
    L = loc.val.e if isinstance(loc, VOpt) else (loc.e if isinstance(loc, VStr) else z3.StringVal(""))
    empty = z3.Or(loc.isnone, z3.Length(L) == 0) if isinstance(loc, VOpt) else (z3.Length(L) == 0 if isinstance(loc, VStr) else z3.BoolVal(True))
    dp_none = dp.isnone if isinstance(dp, VOpt) else z3.BoolVal(isinstance(dp, VNone))
    # (for the bracketed IPv6 form the exact refusal condition is left to the bounded harness: both solvers leave it open)
    return [("refused only for an invalid location", z3.And(z3.Not(empty), z3.Or(z3.PrefixOf(z3.StringVal("["), L), invalid_location(E, L, dp_none))))]


ParseLocation.x_invalid = _x_invalid


@R.lemma("C19:loc_roundtrip", props=("C19",))
def loc_roundtrip(E):
    """for every state (sockname, host, port) the location parser can produce, the printed location is accepted again and parses to
    the same state (the known exotic shapes are excluded by exact predicates, see known_findings.json)"""
    from pyvc.engine import State
    P = R.contracts["Pyro5.core.URI._parseLocation"]
    Lc = R.contracts["Pyro5.core.URI.location"]
    for shape in ("unix", "plain"):       # the bracketed IPv6 form is covered by the bounded native harness only (solvers leave it open)
        st = State()
        dp = opt_int("defaultPort")
        loc0 = VStr(z3.Const("loc0", StrS))
        u = st.new_obj("Pyro5.core.URI", sockname=opt_str("sockname"), host=opt_str("host"), port=opt_int("port"))
        old = State()
        uo = VObj(u.ref, u.cls)
        old.heap[u.ref] = dict(sockname=NONE, host=NONE, port=NONE)
        L0 = loc0.e
        st.assume(z3.Length(L0) > 0)
        unix = z3.PrefixOf(z3.StringVal("./u:"), L0)
        ipv6 = z3.PrefixOf(z3.StringVal("["), L0)
        st.assume({"unix": unix, "plain": z3.And(z3.Not(unix), z3.Not(ipv6)), "ipv6": z3.And(z3.Not(unix), ipv6)}[shape])
        a = {"self": u, "location": loc0, "defaultPort": dp}
        for label, cond in P.spec(E, old, st, a):          # the state is one the parser produced from loc0
            st.assume(cond)
        sn_none, sn, h_none, h, p_none, p = field_terms(st, u)
        # facts about int(): decimal digit strings parse; printing and re-reading an int gives it back
        st.assume(*int_facts(p))
        none, text = Lc.text(st, {"self": u})
        # exclusions = known findings (exact input classes)
        if shape == "plain":
            st.assume(h != z3.StringVal("./u"), z3.Not(z3.PrefixOf(z3.StringVal("["), h)))
        if shape == "plain":
            # hints (each proved on its own, then used): where the first ':' of host:port is, and what lies on either side
            d = int_to_str(p)
            t2 = z3.Concat(h, z3.StringVal(":"), d)
            st.assume(z3.Not(z3.Contains(h, z3.StringVal(":"))))       # consequence of the parser's post (text before the first ':')
            for label, fact in (("first-colon", z3.IndexOf(t2, z3.StringVal(":"), 0) == z3.Length(h)),
                                ("host-part", z3.SubString(t2, 0, z3.Length(h)) == h),
                                ("port-part", z3.SubString(t2, z3.Length(h) + 1, z3.Length(t2) - z3.Length(h) - 1) == d),
                                ("not-unix", z3.Not(z3.PrefixOf(z3.StringVal("./u:"), t2))),
                                ("not-bracket", z3.Not(z3.PrefixOf(z3.StringVal("["), t2))),
                                ("port-text-nonempty", z3.Length(d) > 0)):
                E.oblige(st, "plain: hint[%s]" % label, fact, kind="lemma")
                st.assume(fact)
        E.oblige(st, "%s: a parsed location always has a text form" % shape, z3.Not(none), kind="lemma")
        dp_none = dp.isnone
        E.oblige(st, "%s: the printed location is accepted again" % shape, z3.Not(invalid_location(E, text, dp_none)), kind="lemma")
        # second parse
        u2 = st.new_obj("Pyro5.core.URI", sockname=opt_str("sockname2"), host=opt_str("host2"), port=opt_int("port2"))
        old2 = State()
        old2.heap[u2.ref] = dict(sockname=NONE, host=NONE, port=NONE)
        s2 = st.fork()
        a2 = {"self": u2, "location": VStr(text), "defaultPort": dp}
        for label, cond in P.spec(E, old2, s2, a2):
            s2.assume(cond)
        sn2_none, sn2, h2_none, h2, p2_none, p2 = field_terms(s2, u2)
        E.oblige(s2, "%s: re-parsing the printed location gives the same socket name" % shape, z3.And(sn2_none == sn_none, z3.Implies(z3.Not(sn_none), sn2 == sn)), kind="lemma")
        E.oblige(s2, "%s: ... the same host" % shape, z3.And(h2_none == h_none, z3.Implies(z3.Not(h_none), h2 == h)), kind="lemma")
        E.oblige(s2, "%s: ... the same port" % shape, z3.And(p2_none == p_none, z3.Implies(z3.Not(p_none), p2 == p)), kind="lemma")
        E.oblige(s2, "vacuity:canary[%s]" % shape, z3.BoolVal(False), kind="canary")


@R.contract
class UriEq(Contract):
    name = "Pyro5.core.URI.__eq__"
    props = ("C19",)
    raises = {}

    def setup(self, E, st):
        def mk(n):
            return st.new_obj("Pyro5.core.URI", protocol=VStr(z3.Const(n + "_protocol", StrS)), object=VStr(z3.Const(n + "_object", StrS)),
                              sockname=opt_str(n + "_sockname"), host=opt_str(n + "_host"), port=opt_int(n + "_port"))
        return {"self": mk("a"), "other": mk("b")}

    def ensures(self, E, old, st, a, result):
        conds = []
        for f in ("protocol", "object", "sockname", "host", "port"):
            conds.append(E.eq(st.get(a["self"], f), st.get(a["other"], f), st))
        return [("equal exactly when protocol, object, socket name, host and port are equal", result.e == z3.And(conds))]


R.inline("Pyro5.core.URI.__getstate__")


@R.contract
class UriSetState(Contract):
    """URI.__setstate__(state): the five components are taken over exactly as given - in particular the port, whatever its value (0 included).
    It is the path behind URI(uri) copies, copy.copy and every serializer's re-creation of a URI (C19: a URI that travels is equal to the original)."""
    name = "Pyro5.core.URI.__setstate__"
    props = ("C19",)
    raises = {}
    no_join = True

    def setup(self, E, st):
        self.u = st.new_obj("Pyro5.core.URI")
        self.parts = [VStr(z3.Const("s_protocol", StrS)), VStr(z3.Const("s_object", StrS)), opt_str("s_sockname"), opt_str("s_host"), opt_int("s_port")]
        return {"self": self.u, "state": VTuple(self.parts)}

    def ensures(self, E, old, st, a, result):
        post = []
        for f, v in zip(("protocol", "object", "sockname", "host", "port"), self.parts):
            got = st.get(self.u, f) if st.has(self.u, f) else None
            post.append(("%s is the given value, unchanged" % f, E.eq(got, v, st) if got is not None else z3.BoolVal(False)))
            if isinstance(v, VOpt):
                post.append(("%s: None stays None and a value stays a value (0 is a port)" % f,
                             (got.isnone == v.isnone) if isinstance(got, VOpt) else z3.BoolVal(isinstance(got, VNone)) == v.isnone))
        return post


@R.contract
class UriStr(Contract):
    """URI.__str__ for PYRO / PYRONAME uris (the object is a string): '<protocol>:<object>' followed by '@<location>' exactly when the uri has a
    location (the text of the `location` property, by its contract).  PYROMETA (object is a set of tags) is left to the bounded harness / known findings."""
    name = "Pyro5.core.URI.__str__"
    props = ("C19",)
    raises = {}
    no_join = True

    def setup(self, E, st):
        self.proto = VStr(z3.Const("u_protocol", StrS))
        self.obj = VStr(z3.Const("u_object", StrS))
        self.u = st.new_obj("Pyro5.core.URI", protocol=self.proto, object=self.obj, sockname=opt_str("sockname"), host=opt_str("host"), port=opt_int("port"))
        st.assume(self.proto.e != z3.StringVal("PYROMETA"))
        return {"self": self.u}

    def requires(self, E, st, a):
        return R.contracts["Pyro5.core.URI.location"].requires(E, st, a)

    def ensures(self, E, old, st, a, result):
        none, t = R.contracts["Pyro5.core.URI.location"].text(st, a)
        head = z3.Concat(self.proto.e, z3.StringVal(":"), self.obj.e)
        want = z3.If(z3.Or(none, z3.Length(t) == 0), head, z3.Concat(head, z3.StringVal("@"), t))
        return [("the text is protocol ':' object, then '@' location exactly when there is a location", result.e == want if isinstance(result, VStr) else z3.BoolVal(False))]


uri_hash = z3.Function("hash_of_uri_state", StrS, StrS, BoolS, StrS, BoolS, StrS, BoolS, IntS, IntS)


@R.spec("builtins.hash", doc="hash(<5-tuple of the URI state>): a function of the five components (equal tuples hash equal)")
def b_hash(E, st, args, kw):
    v = args[0]
    if isinstance(v, VTuple) and len(v.items) == 5:
        parts = []
        for x in v.items:
            if isinstance(x, VOpt):
                parts += [x.isnone, z3.If(x.isnone, z3.StringVal("") if x.val.e.sort() == StrS else z3.IntVal(0), x.val.e)]
            elif isinstance(x, VNone):
                parts += [z3.BoolVal(True), None]
            else:
                parts.append(x.e)
        if len(parts) == 8 and all(p is not None for p in parts):
            return [Res(st, VInt(uri_hash(*parts)))]
    raise Unsupported("hash(%r)" % (v,))


@R.contract
class UriHash(Contract):
    """URI.__hash__: a function of exactly the five components __eq__ compares, so equal URIs hash equal (hash / eq consistency of C19)"""
    name = "Pyro5.core.URI.__hash__"
    props = ("C19",)
    raises = {}
    no_join = True

    def setup(self, E, st):
        self.parts = [VStr(z3.Const("a_protocol", StrS)), VStr(z3.Const("a_object", StrS)), opt_str("a_sockname"), opt_str("a_host"), opt_int("a_port")]
        self.u = st.new_obj("Pyro5.core.URI", **dict(zip(("protocol", "object", "sockname", "host", "port"), self.parts)))
        return {"self": self.u}

    def ensures(self, E, old, st, a, result):
        p = self.parts
        want = uri_hash(p[0].e, p[1].e, p[2].isnone, z3.If(p[2].isnone, z3.StringVal(""), p[2].val.e), p[3].isnone, z3.If(p[3].isnone, z3.StringVal(""), p[3].val.e),
                        p[4].isnone, z3.If(p[4].isnone, z3.IntVal(0), p[4].val.e))
        return [("the hash is a function of (protocol, object, sockname, host, port) - the very components __eq__ compares", result.e == want if isinstance(result, VInt) else z3.BoolVal(False))]


from specs.strings import uri_split      # noqa: E402
str_upper = z3.Function("str_upper", StrS, StrS)


@R.contract
class UriInit(Contract):
    """URI.__init__(text) for PYRO / PYRONAME texts: the text is split by the uri pattern (assumed regex contract specs.strings.uri_split), the protocol is
    upper-cased, the object taken literally, the location handed to _parseLocation (its contract) with the name-server port as default for PYRONAME and no
    default for PYRO (which must have a location); everything else is refused with PyroError.  Copying another URI goes through __setstate__ (own contract);
    PYROMETA (tag sets) is left to the bounded harness."""
    name = "Pyro5.core.URI.__init__"
    props = ("C19",)
    raises = {"Pyro5.errors.PyroError": "x_invalid"}
    no_join = True
    trusted = ("the text contains no newline character ('$' and '.' of the pattern treat it specially: bounded harness); the uri pattern as specified in specs/strings.py "
               "(validated against `re` on all short strings over a small alphabet); str.upper is an uninterpreted function",)

    def setup(self, E, st):
        self.u = st.new_obj("Pyro5.core.URI")
        self.text = VStr(z3.Const("uri_text", StrS))
        st.assume(z3.Not(z3.Contains(self.text.e, z3.StringVal("\n"))))
        ok, proto, obj, split, loc = uri_split(self.text.e)
        st.assume(str_upper(proto) != z3.StringVal("PYROMETA"))
        return {"self": self.u, "uri": self.text}

    def parts(self):
        return uri_split(self.text.e)

    def ensures(self, E, old, st, a, result):
        ok, proto, obj, split, loc = self.parts()
        up = str_upper(proto)
        u = self.u
        have = all(st.has(u, f) for f in ("protocol", "object", "sockname", "host", "port"))
        if not have:
            return [("all five components are set", z3.BoolVal(False))]
        P = R.contracts["Pyro5.core.URI._parseLocation"]
        blank = State()
        blank.heap[u.ref] = dict(sockname=NONE, host=NONE, port=NONE)
        pyro = up == z3.StringVal("PYRO")
        name = up == z3.StringVal("PYRONAME")
        post = [("the text matched the uri pattern", ok),
                ("the protocol is the upper-cased protocol text and is PYRO or PYRONAME", z3.And(E.eq(st.get(u, "protocol"), VStr(up), st), z3.Or(pyro, name))),
                ("the object is the object text, unchanged", E.eq(st.get(u, "object"), VStr(obj), st)),
                ("a PYRO uri has a location", z3.Implies(pyro, split))]
        sn_none, sn, h_none, h, p_none, p = field_terms(st, u)
        post.append(("without a location text no location component is set", z3.Implies(z3.Not(split), z3.And(sn_none, h_none, p_none))))
        for dp, cond, what in ((VNone(), pyro, "PYRO (no default port)"), (E.qualified("Pyro5.config.NS_PORT"), name, "PYRONAME (name server port as default)")):
            for label, c in P.spec(E, blank, st, {"self": u, "location": VStr(loc), "defaultPort": dp}):
                post.append(("%s: location parsed as _parseLocation specifies [%s]" % (what, label), z3.Implies(z3.And(cond, split), c)))
        return post

    def x_invalid(self, E, old, st, a, exc):
        ok, proto, obj, split, loc = self.parts()
        up = str_upper(proto)
        pyro = up == z3.StringVal("PYRO")
        name = up == z3.StringVal("PYRONAME")
        bad_loc = lambda dp_none: z3.And(split, z3.Or(z3.PrefixOf(z3.StringVal("["), loc), invalid_location(E, loc, dp_none)))      # noqa: E731
        return [("refused only for: no match, unknown protocol, PYRO without location, or an invalid location",
                 z3.Or(z3.Not(ok), z3.Not(z3.Or(pyro, name)), z3.And(pyro, z3.Not(split)), z3.And(pyro, bad_loc(z3.BoolVal(True))), z3.And(name, bad_loc(z3.BoolVal(False)))))]


@R.lemma("C19:uri_text_roundtrip", props=("C19",))
def uri_text_roundtrip(E):
    """over the contracts of __init__ (via the uri pattern's split) and __str__: the text printed for a PYRO / PYRONAME uri that __init__ produced is split
    by the uri pattern into the SAME protocol, the SAME object and exactly the printed location text (or none when none was printed).  Together with lemma
    loc_roundtrip (the printed location parses back to the same socket name / host / port) this gives URI(str(u)) == u component by component."""
    from specs.strings import no_space
    for proto_lit in ("PYRO", "PYRONAME"):
        for has_loc in (True, False):
            if proto_lit == "PYRO" and not has_loc:
                continue        # __init__ refuses PYRO without location
            tag = "%s %s location" % (proto_lit, "with" if has_loc else "without")
            st = State()
            text0 = z3.Const("uri_text", StrS)
            ok0, proto0, obj0, split0, loc0 = uri_split(text0)
            st.assume(ok0, split0 == z3.BoolVal(has_loc))                   # UriInit.ensures: matched; location fields set iff the text had a location part
            up0 = z3.StringVal(proto_lit)                                  # UriInit.ensures: protocol is PYRO or PYRONAME (upper-cased)
            L1 = z3.Const("printed_location", StrS)                        # Location.ensures / UriStr.ensures: the location text, non-empty when there is one
            st.assume(z3.Length(L1) >= 1, z3.Not(z3.Contains(L1, z3.StringVal("\n"))))
            text1 = z3.Concat(up0, z3.StringVal(":"), obj0, z3.StringVal("@"), L1) if has_loc else z3.Concat(up0, z3.StringVal(":"), obj0)      # UriStr.ensures
            ok1, proto1, obj1, split1, loc1 = uri_split(text1)
            # hints, each proved then used
            c0 = z3.IndexOf(text0, z3.StringVal(":"), 0)
            rest0 = z3.SubString(text0, c0 + 1, z3.Length(text0) - c0 - 1)
            j0 = z3.IndexOf(rest0, z3.StringVal("@"), 1)
            rest1 = z3.Concat(obj0, z3.StringVal("@"), L1) if has_loc else obj0
            hints = [("the first ':' of the printed text ends the protocol", z3.IndexOf(text1, z3.StringVal(":"), 0) == len(proto_lit)),
                     ("the text after it is object [@ location]", z3.SubString(text1, len(proto_lit) + 1, z3.Length(text1) - len(proto_lit) - 1) == rest1)]
            if has_loc:
                hints += [("the object of the first parse has no '@' from index 1 on", z3.IndexOf(obj0, z3.StringVal("@"), 1) < 0),
                          ("so the first '@' (from index 1) of the printed rest is the separator", z3.IndexOf(rest1, z3.StringVal("@"), 1) == z3.Length(obj0))]
            else:
                hints += [("the object is the whole rest of the first text", obj0 == rest0)]
            for label, fact in hints:
                E.oblige(st, "%s: hint[%s]" % (tag, label), fact, kind="lemma")
                st.assume(fact)
            E.oblige(st, "%s: the printed text matches the uri pattern" % tag, ok1, kind="lemma")
            E.oblige(st, "%s: same protocol" % tag, proto1 == up0, kind="lemma")
            E.oblige(st, "%s: same object" % tag, obj1 == obj0, kind="lemma")
            E.oblige(st, "%s: a location part is found exactly when one was printed" % tag, split1 == z3.BoolVal(has_loc), kind="lemma")
            if has_loc:
                E.oblige(st, "%s: the location part is exactly the printed location" % tag, loc1 == L1, kind="lemma")
            E.oblige(st, "vacuity:canary[%s]" % tag, z3.BoolVal(False), kind="canary")
