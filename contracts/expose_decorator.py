"""Sidecar contract for the @expose decorator applied to a class (C02): the exposure mark is put only on members the class itself defines
(the names of its own __dict__), never on a private name, and on nothing else."""
import z3
from pyvc.values import *
from pyvc.engine import Contract, Res, Unsupported
from pyvc.registry import R
from specs.opaque import u_attr, u_getitem, is_class, box
import contracts.exposure as X      # is_private_attribute contract, private_spec, inspect.isdatadescriptor

CLAZZ = z3.Const("clazz", U)


def _pred(name):
    f = z3.Function(name, U, BoolS)

    def h(E, st, args, kw):
        v = args[0]
        return [Res(st, VBool(f(v.e) if isinstance(v, VOpaque) else z3.BoolVal(False)))]
    return h


for _n in ("isfunction", "ismethoddescriptor", "ismethod"):
    R.spec("inspect." + _n, doc="uninterpreted predicate of the attribute object")(_pred("inspect_" + _n))
for _q in ("builtins.classmethod", "builtins.staticmethod"):
    R.glob(_q, VClass(_q, None), "class object (isinstance tests only)")


@R.spec("U.setattr", doc="x.name = v on an opaque object: recorded as an event (function / class objects: plain attribute store, no user code)")
def u_setattr(E, st, args, kw):
    x, n, v = args
    st.event("mark", x.e, z3.simplify(n.e).as_string() if z3.is_string_value(z3.simplify(n.e)) else None, v)
    return [Res(st, NONE)]


@R.contract
class ExposeClass(Contract):
    name = "Pyro5.server.expose#class"
    real_name = "Pyro5.server.expose"
    props = ("C02",)
    raises = {"builtins.AttributeError": "x_refused", "builtins.Exception": "x_other"}
    raises_any_subclass = ("builtins.Exception",)
    no_join = True
    log_calls = False
    trusted = ("reading an attribute of a class object (getattr(clazz, name), thing.__func__, thing.fget ...) runs no user code; a class's own members are the "
               "names of its __dict__; inspect.* predicates are uninterpreted",)

    def setup(self, E, st):
        self.c = VOpaque(CLAZZ)
        st.assume(CLAZZ != U_NONE, is_class(CLAZZ), z3.Not(X.is_datadesc(CLAZZ)))
        return {"method_or_class": self.c}

    def user_call_may_raise(self, E, st, target, kind):
        return True

    @staticmethod
    def this_iteration(st):
        evs = st.events
        last = max([i for i, e in enumerate(evs) if e[0] == "loop"], default=-1)
        return evs[last + 1:], last

    def own_names(self):
        return u_attr(CLAZZ, z3.StringVal("__dict__"))

    def loop_modifies(self, k, E, st, a):
        return []

    def loop_inv(self, k, E, old, st, a):
        idx = st.ghost["idx%d" % k].e
        evs, _ = self.this_iteration(st)
        marks = [e for e in evs if e[0] == "mark"]
        inv = [("index", idx >= 0)]
        if marks:
            # the member looked at in this iteration: getattr(clazz, name) with name the (idx-1)-th own name (the index has already advanced)
            name = u_getitem(self.own_names(), box_int(idx - 1))
            nm = unbox_str(name)
            thing = u_attr(CLAZZ, nm)
            reach = [thing] + [u_attr(thing, z3.StringVal(f)) for f in ("__func__", "fset", "fget", "fdel")]
            for m in marks:
                inv.append(("an exposure mark lands only on a member the class itself defines (or its underlying function / accessor)",
                            z3.Or([m[1] == r for r in reach])))
                inv.append(("... and only the mark `_pyroExposed = True`", z3.BoolVal(m[2] == "_pyroExposed" and isinstance(m[3], VBool) and z3.is_true(m[3].e))))
            inv.append(("a private name is never marked", z3.Not(X.private_spec(nm))))
        return inv

    def ensures(self, E, old, st, a, result):
        evs, last = self.this_iteration(st)
        after = [e for e in evs if e[0] == "mark"]
        return [("the class comes back", z3.BoolVal(isinstance(result, VOpaque) and z3.eq(result.e, CLAZZ))),
                ("after the members, only the class object itself is marked", z3.BoolVal(last >= 0 and len(after) == 1) if len(after) != 1 or last < 0 else after[0][1] == CLAZZ)]

    def x_refused(self, E, old, st, a, exc):
        in_loop = any(e[0] == "loop" for e in st.events)      # (an attribute read failing mid-way is an artefact of the opaque attribute model)
        return [("a class refused for its name is not marked at all", z3.BoolVal(in_loop or not [e for e in st.events if e[0] == "mark"]))]

    def x_other(self, E, old, st, a, exc):
        return []
