"""Sidecar contracts for the per-type replacement tables of the json and msgpack serializers (C16: 'a registered object returned from a remote method arrives as a
proxy'): register_type_replacement writes exactly one entry of the table; default() consults the table AS IT IS NOW for the exact type of the object and calls the
function found there exactly once, on that very object (nothing remembered from earlier lookups), and then goes on with what that function returned."""
import z3
from pyvc.values import *
from pyvc.engine import Contract, Res
from pyvc.registry import R
from specs.opaque import new_odict, is_class, may_raise

KSTAR = z3.Const("any_type", U)
BUILTIN_TYPE = z3.Const("builtins.type#ref", U)
type_of = z3.Function("exact_type_of", U, U)
SPECIAL = ("builtins.set", "uuid.UUID", "builtins.complex", "datetime.datetime", "datetime.date", "decimal.Decimal", "numbers.Number", "array.array")

for _q in ("builtins.set", "uuid.UUID", "builtins.complex", "datetime.datetime", "datetime.date", "decimal.Decimal", "numbers.Number", "array.array"):
    if _q not in R.globals:
        R.glob(_q, VClass(_q, None), "a class object (only used in isinstance tests)")


_prev_type = R.specs.get("builtins.type")


@R.spec("builtins.type", doc="type(x) of an opaque object: its exact class, as an object (a dict key)")
def type_of_opaque(E, st, args, kw):
    if len(args) == 1 and isinstance(args[0], VOpaque):
        t = type_of(args[0].e)
        st.assume(is_class(t), t != U_NONE)
        return [Res(st, VOpaque(t))]
    return _prev_type(E, st, args, kw)


def plain(x):
    """x is none of the values default() converts itself (those branches are C01's)"""
    return z3.And([z3.Not(z3.Function("isinstance_" + n, U, BoolS)(x)) for n in SPECIAL])


def class_to_dict_decl(E, st, args, kw):
    st.event("class_to_dict", args[-1])
    return [Res(st, VOpaque(fresh("dict_form", U))), E.raise_(st.fork(), "Pyro5.errors.SerializeError")]


for _c in ("JsonSerializer", "MsgpackSerializer"):
    R.spec("Pyro5.serializers.%s.class_to_dict" % _c, doc="declared: the dict form of an arbitrary object (SerializerBase.class_to_dict, C07 has its contract), or SerializeError")(class_to_dict_decl)


class _Base(Contract):
    props = ("C16",)
    no_join = True
    log_calls = False
    cls_name = None

    def table_attr(self):
        return "_%s__type_replacements" % self.cls_name

    def mk(self, E, st):
        self.table = new_odict(st, "type_replacements")
        return st.new_obj("Pyro5.serializers." + self.cls_name, **{self.table_attr(): self.table})

    def entry(self, st, k):
        t = st.get(self.ser, self.table_attr())
        return z3.Select(st.get(t, "dom"), k), z3.Select(st.get(t, "map"), k)

    def same_entry(self, old, st, k):
        p0, v0 = self.entry(old, k)
        p1, v1 = self.entry(st, k)
        return z3.And(p0 == p1, z3.Implies(p0, v0 == v1))


class _Register(_Base):
    raises = {"builtins.ValueError": "x_refused"}
    trusted = ("the replacement table is a dict keyed by type objects (hash / equality of classes = identity); inspect.isclass as specified",)

    def setup(self, E, st):
        self.ser = self.mk(E, st)
        self.typ = VOpaque(z3.Const("object_type", U))
        self.fn = VOpaque(z3.Const("replacement_function", U))
        st.assume(self.typ.e != U_NONE, self.fn.e != U_NONE, is_class(BUILTIN_TYPE))
        return {"cls": self.ser, "object_type": self.typ, "replacement_function": self.fn}

    def ensures(self, E, old, st, a, result):
        p, v = self.entry(st, self.typ.e)
        return [("the table now maps exactly this type to this function", z3.And(p, v == self.fn.e)),
                ("every other type's entry is untouched", z3.Implies(KSTAR != self.typ.e, self.same_entry(old, st, KSTAR))),
                ("only classes other than `type` itself are accepted", z3.And(is_class(self.typ.e), self.typ.e != BUILTIN_TYPE))]

    def x_refused(self, E, old, st, a, exc):
        return [("refused only for a non-class or for `type` itself", z3.Or(z3.Not(is_class(self.typ.e)), self.typ.e == BUILTIN_TYPE)),
                ("nothing written", self.same_entry(old, st, KSTAR))]


@R.contract
class JsonRegister(_Register):
    name = "Pyro5.serializers.JsonSerializer.register_type_replacement"
    cls_name = "JsonSerializer"


@R.contract
class MsgpackRegister(_Register):
    name = "Pyro5.serializers.MsgpackSerializer.register_type_replacement"
    cls_name = "MsgpackSerializer"


class _Default(_Base):
    raises = {"builtins.Exception": "x_any"}
    raises_any_subclass = ("builtins.Exception",)
    trusted = ("the object and what the replacement function returns are none of the builtin values default() converts itself (set, UUID, complex, datetime, date, Decimal, "
               "Number, array: C01's contracts); the replacement function is user-supplied code (for registered objects: _pyro_obj_to_auto_proxy, under contract in the "
               "registry group): any result, any Exception; type(obj) of an object is its exact class; class_to_dict as declared",)

    def setup(self, E, st):
        self.ser = self.mk(E, st)
        self.obj = VOpaque(z3.Const("obj", U))
        st.assume(plain(self.obj.e), self.obj.e != U_NONE)
        st.ghost["replacer_calls"] = VInt(0)
        st.ghost["replaced"] = self.obj
        return {"self": self.ser, "obj": self.obj}

    def want(self, old):
        p, v = self.entry(old, type_of(self.obj.e))
        return z3.And(p, v != U_NONE, truthy(v)), v

    def on_user_call(self, E, st, target, args, kwargs, kind):
        reg, fn = self.want(st)
        E.oblige(st, "the only function called is the one the table holds NOW for the exact type of the object", z3.And(reg, target.e == fn), kind="pre")
        E.oblige(st, "... and it is called with that very object", z3.BoolVal(len(args) == 1 and isinstance(args[0], VOpaque) and z3.eq(args[0].e, self.obj.e) and not kwargs), kind="pre")

    def after_user_call(self, E, st, target, args, kwargs, kind, res):
        st.ghost["replacer_calls"] = VInt(st.ghost["replacer_calls"].e + 1)
        st.ghost["replaced"] = res
        st.assume(plain(res.e))

    def ensures(self, E, old, st, a, result):
        reg, fn = self.want(old)
        n = st.ghost["replacer_calls"].e
        conv = [e for e in st.events if e[0] == "class_to_dict"]
        final = st.ghost["replaced"]
        return [("the replacement registered for the object's type is applied exactly once; without one nothing is called", n == z3.If(reg, 1, 0)),
                ("what travels is the dict form of the replacement's result (of the object itself when none is registered)",
                 z3.BoolVal(len(conv) == 1 and isinstance(conv[0][1], VOpaque) and z3.eq(conv[0][1].e, final.e))),
                ("the table is only read", self.same_entry(old, st, KSTAR))]

    def x_any(self, E, old, st, a, exc):
        reg, fn = self.want(old)
        n = st.ghost["replacer_calls"].e
        return [("a failure comes from the replacement function or from the conversion of its result", z3.Or(z3.And(reg, n == 1), n == 0)),
                ("the table is only read", self.same_entry(old, st, KSTAR))]


@R.contract
class JsonDefault(_Default):
    name = "Pyro5.serializers.JsonSerializer.default#replacement"
    real_name = "Pyro5.serializers.JsonSerializer.default"
    cls_name = "JsonSerializer"


@R.contract
class MsgpackDefault(_Default):
    name = "Pyro5.serializers.MsgpackSerializer.default#replacement"
    real_name = "Pyro5.serializers.MsgpackSerializer.default"
    cls_name = "MsgpackSerializer"
