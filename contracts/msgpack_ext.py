"""Sidecar contracts for the remaining branches of MsgpackSerializer.default / ext_hook (C01): complex numbers (ext 0x30), naive datetimes
(ext 0x32), dates (ext 0x33) and the refusal of unknown extension codes; lemmas: ext_hook undoes default on each of the three, given the
library pairs struct.pack/unpack, datetime.timestamp/fromtimestamp, date.toordinal/fromordinal, complex.real,imag/complex()."""
import z3
from pyvc.values import *
from pyvc.engine import Contract, Res, Unsupported
from pyvc.registry import R
import contracts.serial_symmetry  # noqa: F401   (msgpack.ExtType, MsgpackSerializer model, isinstance for ints)

# ---- assumed library functions (uninterpreted) -------------------------------------------------------------------------------------------
pack_d = z3.Function("struct_pack_d", RealS, BytesS)           # struct.pack("d", x): 8 bytes
unpack_d = z3.Function("struct_unpack_d", BytesS, RealS)
pack_l = z3.Function("struct_pack_l", IntS, BytesS)            # struct.pack("l", n): native long
unpack_l = z3.Function("struct_unpack_l", BytesS, IntS)
L_SIZE = z3.Int("sizeof_native_long")
ts_of = z3.Function("datetime_timestamp", U, RealS)            # datetime.timestamp()
from_ts = z3.Function("datetime_fromtimestamp", RealS, U)      # datetime.datetime.fromtimestamp(x)
ord_of = z3.Function("date_toordinal", U, IntS)
from_ord = z3.Function("date_fromordinal", IntS, U)
c_real = z3.Function("complex_real", U, RealS)
c_imag = z3.Function("complex_imag", U, RealS)
mk_complex = z3.Function("complex_of", RealS, RealS, U)
has_tz = z3.Function("datetime_has_tzinfo", U, BoolS)


def lib_facts(*terms):
    """instances of the assumed library pairs at the given terms"""
    out = []
    for t in terms:
        if t.sort() == RealS:
            out += [unpack_d(pack_d(t)) == t, z3.Length(pack_d(t)) == 8]
        elif t.sort() == IntS:
            out += [unpack_l(pack_l(t)) == t, z3.Length(pack_l(t)) == L_SIZE]
    return out


_prev_pack = R.specs.get("struct.pack")
_prev_unpack = R.specs.get("struct.unpack")


def _fmt(v):
    s = z3.simplify(v.e)
    return s.as_string() if z3.is_string_value(s) else None


@R.spec("struct.pack", doc="native formats 'd', 'dd', 'l': uninterpreted fixed-size encodings (8 bytes per double; sizeof(long) bytes, struct.error outside the native long range); "
        "'!'-formats as before")
def s_pack_native(E, st, args, kw):
    fmt = _fmt(args[0])
    if fmt in ("d", "dd"):
        vals = args[1:]
        if len(vals) != len(fmt) or not all(isinstance(v, VReal) for v in vals):
            raise Unsupported("struct.pack(%r) with %r" % (fmt, vals))
        st.assume(*lib_facts(*[v.e for v in vals]))
        parts = [pack_d(v.e) for v in vals]
        return [Res(st, VBytes(parts[0] if len(parts) == 1 else z3.Concat(*parts)))]
    if fmt == "l":
        v = args[1]
        st.assume(*lib_facts(v.e), L_SIZE >= 4)
        s2 = st.fork()
        return [Res(st, VBytes(pack_l(v.e))), E.raise_(s2, "struct.error")]
    return _prev_pack(E, st, args, kw)


@R.spec("struct.unpack", doc="native formats 'd', 'dd', 'l': the inverse uninterpreted decodings; a buffer of the wrong size raises struct.error")
def s_unpack_native(E, st, args, kw):
    fmt = _fmt(args[0])
    if fmt in ("d", "dd", "l"):
        b = args[1]
        size = {"d": z3.IntVal(8), "dd": z3.IntVal(16), "l": L_SIZE}[fmt]
        out = []
        for s2, ok in E.branch(st, z3.Length(b.e) == size):
            if not ok:
                out.append(E.raise_(s2, "struct.error"))
            elif fmt == "d":
                out.append(Res(s2, VTuple([VReal(unpack_d(b.e))])))
            elif fmt == "dd":
                out.append(Res(s2, VTuple([VReal(unpack_d(z3.SubSeq(b.e, 0, 8))), VReal(unpack_d(z3.SubSeq(b.e, 8, 8)))])))
            else:
                out.append(Res(s2, VTuple([VInt(unpack_l(b.e))])))
        return out
    return _prev_unpack(E, st, args, kw)


class _Kind:
    """model of a value of one builtin class: which isinstance tests it passes"""
    bases = ()

    def getattr(self, E, st, obj, name):
        return None

    def isinstance(self, E, st, v, names):
        return z3.BoolVal(bool(set(self.bases) & set(names)))

    methods = {}


@R.model("value:complex")
class ComplexValue(_Kind):
    """a complex number c: c.real, c.imag"""
    bases = ("builtins.complex", "numbers.Number")

    def getattr(self, E, st, obj, name):
        if name == "real":
            return [Res(st, VReal(c_real(st.get(obj, "u"))))]
        if name == "imag":
            return [Res(st, VReal(c_imag(st.get(obj, "u"))))]
        return None


@R.model("value:datetime")
class DatetimeValue(_Kind):
    """a datetime.datetime d (a subclass of datetime.date): d.tzinfo (truthy iff aware), d.timestamp()"""
    bases = ("datetime.datetime", "datetime.date")

    def getattr(self, E, st, obj, name):
        if name == "tzinfo":
            return [Res(st, VBool(has_tz(st.get(obj, "u"))))]
        return None

    def m_timestamp(self, E, st, obj, args, kw):
        return [Res(st, VReal(ts_of(st.get(obj, "u"))))]

    methods = {"timestamp": m_timestamp}


@R.model("value:date")
class DateValue(_Kind):
    """a datetime.date that is not a datetime: d.toordinal()"""
    bases = ("datetime.date",)

    def m_toordinal(self, E, st, obj, args, kw):
        return [Res(st, VInt(ord_of(st.get(obj, "u"))))]

    methods = {"toordinal": m_toordinal}


@R.spec("builtins.complex", doc="complex(re, im): the complex number with these parts")
def b_complex(E, st, args, kw):
    if len(args) == 2 and all(isinstance(x, VReal) for x in args):
        return [Res(st, VOpaque(mk_complex(args[0].e, args[1].e)))]
    raise Unsupported("complex(%r)" % (args,))


@R.spec("datetime.datetime.fromtimestamp", doc="datetime.datetime.fromtimestamp(x): the local naive datetime of POSIX time x, or OverflowError / OSError / ValueError outside the platform's range")
def dt_fromtimestamp(E, st, args, kw):
    x = args[0]
    out = [Res(st, VOpaque(from_ts(x.e)))]
    for q in ("builtins.OverflowError", "builtins.OSError", "builtins.ValueError"):
        out.append(E.raise_(st.fork(), q))
    return out


@R.spec("datetime.date.fromordinal", doc="datetime.date.fromordinal(n): the date with proleptic Gregorian ordinal n, or ValueError / OverflowError outside 1..max")
def d_fromordinal(E, st, args, kw):
    n = args[0]
    return [Res(st, VOpaque(from_ord(n.e))), E.raise_(st.fork(), "builtins.ValueError"), E.raise_(st.fork(), "builtins.OverflowError")]


class _DefaultBase(Contract):
    real_name = "Pyro5.serializers.MsgpackSerializer.default"
    props = ("C01",)
    raises = {}
    no_join = True
    kind = None
    trusted = ("no type replacement is registered for the builtin number / date types",)

    def setup(self, E, st):
        self.u = z3.Const("value", U)
        return {"self": st.new_obj("Pyro5.serializers.MsgpackSerializer"), "obj": st.new_obj(self.kind, u=self.u)}

    def ext(self, st, result, code):
        if not (isinstance(result, VObj) and result.cls == "msgpack.ExtType"):
            return None, [("the value becomes an extension value", z3.BoolVal(False))]
        c, d = st.get(result, "code"), st.get(result, "data")
        return d, [("extension code 0x%02x" % code, c.e == code if isinstance(c, VInt) else z3.BoolVal(False))]


@R.contract
class DefaultComplex(_DefaultBase):
    name = "Pyro5.serializers.MsgpackSerializer.default#complex"
    kind = "value:complex"

    def ensures(self, E, old, st, a, result):
        d, post = self.ext(st, result, 0x30)
        if d is not None:
            post.append(("its payload is the two doubles real, imag", d.e == z3.Concat(pack_d(c_real(self.u)), pack_d(c_imag(self.u)))))
        return post


@R.contract
class DefaultDatetime(_DefaultBase):
    name = "Pyro5.serializers.MsgpackSerializer.default#datetime"
    kind = "value:datetime"
    raises = {"Pyro5.errors.SerializeError": "x_aware"}

    def ensures(self, E, old, st, a, result):
        d, post = self.ext(st, result, 0x32)
        if d is not None:
            post += [("its payload is the POSIX timestamp of the datetime as one double", d.e == pack_d(ts_of(self.u))),
                     ("only naive datetimes are encoded", z3.Not(has_tz(self.u)))]
        return post

    def x_aware(self, E, old, st, a, exc):
        return [("refused exactly when the datetime carries time zone information", has_tz(self.u))]


@R.contract
class DefaultDate(_DefaultBase):
    name = "Pyro5.serializers.MsgpackSerializer.default#date"
    kind = "value:date"
    raises = {"struct.error": "x_range"}

    def ensures(self, E, old, st, a, result):
        d, post = self.ext(st, result, 0x33)
        if d is not None:
            post.append(("its payload is the proleptic Gregorian ordinal as a native long", d.e == pack_l(ord_of(self.u))))
        return post

    def x_range(self, E, old, st, a, exc):
        return []


class _ExtHookBase(Contract):
    real_name = "Pyro5.serializers.MsgpackSerializer.ext_hook"
    props = ("C01",)
    no_join = True
    code = None
    raises = {"struct.error": "x_size"}

    def setup(self, E, st):
        self.data = z3.Const("ext_data", BytesS)
        return {"self": st.new_obj("Pyro5.serializers.MsgpackSerializer"), "code": VInt(self.code), "data": VBytes(self.data)}

    def x_size(self, E, old, st, a, exc):
        return [("refused only for a payload of the wrong size", z3.Length(self.data) != self.size())]

    def x_lib(self, E, old, st, a, exc):
        return [("the payload had the right size (the library refused the decoded number)", z3.Length(self.data) == self.size())]


@R.contract
class ExtHookComplex(_ExtHookBase):
    name = "Pyro5.serializers.MsgpackSerializer.ext_hook#complex"
    code = 0x30

    def size(self):
        return z3.IntVal(16)

    def ensures(self, E, old, st, a, result):
        want = mk_complex(unpack_d(z3.SubSeq(self.data, 0, 8)), unpack_d(z3.SubSeq(self.data, 8, 8)))
        return [("a complex extension value decodes to complex(first double, second double)", result.e == want if isinstance(result, VOpaque) else z3.BoolVal(False))]


@R.contract
class ExtHookDatetime(_ExtHookBase):
    name = "Pyro5.serializers.MsgpackSerializer.ext_hook#datetime"
    code = 0x32
    raises = {"struct.error": "x_size", "builtins.OverflowError": "x_lib", "builtins.OSError": "x_lib", "builtins.ValueError": "x_lib"}

    def size(self):
        return z3.IntVal(8)

    def ensures(self, E, old, st, a, result):
        return [("a datetime extension value decodes to datetime.fromtimestamp(the double) - the inverse of what default() encodes, for every timestamp",
                 result.e == from_ts(unpack_d(self.data)) if isinstance(result, VOpaque) else z3.BoolVal(False))]


@R.contract
class ExtHookDate(_ExtHookBase):
    name = "Pyro5.serializers.MsgpackSerializer.ext_hook#date"
    code = 0x33
    raises = {"struct.error": "x_size", "builtins.OverflowError": "x_lib", "builtins.ValueError": "x_lib"}

    def size(self):
        return L_SIZE

    def ensures(self, E, old, st, a, result):
        return [("a date extension value decodes to date.fromordinal(the long)", result.e == from_ord(unpack_l(self.data)) if isinstance(result, VOpaque) else z3.BoolVal(False))]


@R.contract
class ExtHookUnknown(_ExtHookBase):
    name = "Pyro5.serializers.MsgpackSerializer.ext_hook#unknown-code"
    raises = {"Pyro5.errors.SerializeError": "x_refused"}
    never_returns = True

    def setup(self, E, st):
        self.data = z3.Const("ext_data", BytesS)
        self.c = z3.Int("ext_code")
        st.assume(z3.And(self.c != 0x30, self.c != 0x31, self.c != 0x32, self.c != 0x33))
        return {"self": st.new_obj("Pyro5.serializers.MsgpackSerializer"), "code": VInt(self.c), "data": VBytes(self.data)}

    def ensures(self, E, old, st, a, result):
        return [("an unknown extension code never decodes to a value", z3.BoolVal(False))]

    def x_refused(self, E, old, st, a, exc):
        return []


@R.lemma("C01:msgpack-ext-roundtrip", props=("C01",))
def ext_roundtrip(E):
    """over the contracts above and the assumed library pairs: ext_hook(code, payload) of what default() produced is the original value"""
    from pyvc.engine import State
    v = z3.Const("value", U)
    # complex
    st = State()
    re_, im_ = c_real(v), c_imag(v)
    data = z3.Concat(pack_d(re_), pack_d(im_))                     # DefaultComplex.ensures
    st.assume(*lib_facts(re_, im_))
    st.assume(mk_complex(c_real(v), c_imag(v)) == v)               # assumed: complex(c.real, c.imag) == c
    E.oblige(st, "complex: the payload has the size ext_hook expects", z3.Length(data) == 16, kind="lemma")
    E.oblige(st, "complex: ext_hook(0x30, default(c).data) == c",
             mk_complex(unpack_d(z3.SubSeq(data, 0, 8)), unpack_d(z3.SubSeq(data, 8, 8))) == v, kind="lemma")
    # datetime (modulo the library's own fromtimestamp(timestamp(d)) == d, which is a known finding far from the epoch)
    st = State()
    t = ts_of(v)
    data = pack_d(t)
    st.assume(*lib_facts(t))
    E.oblige(st, "datetime: the payload has the size ext_hook expects", z3.Length(data) == 8, kind="lemma")
    E.oblige(st, "datetime: ext_hook(0x32, default(d).data) == datetime.fromtimestamp(d.timestamp())", from_ts(unpack_d(data)) == from_ts(t), kind="lemma")
    # date
    st = State()
    o = ord_of(v)
    data = pack_l(o)
    st.assume(*lib_facts(o))
    st.assume(from_ord(ord_of(v)) == v)                              # assumed: date.fromordinal(d.toordinal()) == d
    E.oblige(st, "date: the payload has the size ext_hook expects", z3.Length(data) == L_SIZE, kind="lemma")
    E.oblige(st, "date: ext_hook(0x33, default(d).data) == d", from_ord(unpack_l(data)) == v, kind="lemma")
