"""Sidecar contracts for item streams (C10): Daemon._streamResponse, DaemonObject.get_next_stream_item / close_stream,
Daemon._clientDisconnect, Daemon._housekeeping (stream table part), client._StreamResultIterator.__next__ / close.

All table conditions are stated for ONE arbitrary stream id (the free constant `any_stream_id` of specs/stream_model.py): a free constant is
universally quantified, so "entry any_stream_id is unchanged unless it is the id operated on" is the frame condition for every stream."""
import z3
from pyvc.values import *
from pyvc.engine import Contract, Res, Unsupported
from pyvc.registry import R
from specs.opaque import may_raise, box, user_call
from specs.daemon_model import new_daemon, new_call_context, config_facts
from specs.stream_model import new_table, new_iters, entry, same_entry, KSTAR, item_of, stops_at, KeySnapshot
import contracts.server_dispatch  # noqa: F401  (declared contracts of the callees)
import contracts.client_invoke as CI

LINGER = z3.Const("config_ITER_STREAM_LINGER", RealS)
LIFETIME = z3.Const("config_ITER_STREAM_LIFETIME", RealS)
STREAMING = z3.Const("config_ITER_STREAMING", BoolS)
is_iterator = z3.Function("is_iterator_or_generator", U, BoolS)
CI.PyroInvoke.raises_any_subclass = ("builtins.BaseException",)     # callers see: any exception class may come out of a remote call


def _daemon_with_table(E, st):
    d = new_daemon(E, st)
    t = new_table(st)
    st.set(d, "streaming_responses", t)
    st.set(d, "housekeeper_lock", st.new_obj("lock", name="housekeeper_lock"))
    st.set(d, "_shutting_down", VBool(z3.Const("shutting_down", BoolS)))
    st.ghost["clock"] = VReal(z3.Const("clock_at_entry", RealS))
    st.assume(z3.Const("clock_at_entry", RealS) > 0)
    new_iters(st)
    return d, t


def _nexts(st):
    return [e for e in st.events if e[0] == "next"]


def _writes(st):
    return [e for e in st.events if e[0] in ("table_write", "table_delete")]


class _StreamBase(Contract):
    props = ("C10",)
    no_join = True
    log_calls = False
    trusted = ("streaming_responses is a dict keyed by str (model: five arrays); sequential semantics - concurrent workers / housekeeper touching the table "
               "at the same time are not covered (no common lock exists); next(it) yields item(it, pos) and advances pos, or raises an Exception subclass "
               "(StopIteration included) at the position where the iterator ends; time.time() never decreases and is positive",)


# ----------------------------------------------------------------------------------------------------------------------
@R.contract
class GetNextStreamItem(_StreamBase):
    name = "Pyro5.server.DaemonObject.get_next_stream_item"
    raises = {"builtins.Exception": "x_any"}
    raises_any_subclass = ("builtins.Exception",)

    def setup(self, E, st):
        d, t = _daemon_with_table(E, st)
        self.t = t
        self.sid = z3.Const("streamId", StrS)
        self.ctx = new_call_context(st)
        self.client = VOpaque(z3.Const("current_client", U))
        st.assume(self.client.e != U_NONE)
        st.set(self.ctx, "client", self.client)
        st.genv = {"current_context": self.ctx}
        return {"self": st.new_obj("Pyro5.server.DaemonObject", daemon=d), "streamId": VStr(self.sid)}

    def _frame(self, old, st):
        return ("every other stream's entry is untouched", z3.Implies(KSTAR != self.sid, same_entry(old, st, self.t, KSTAR)))

    def ensures(self, E, old, st, a, result):
        p0, o0, c0, l0, i0 = entry(old, self.t, self.sid)
        p1, o1, c1, l1, i1 = entry(st, self.t, self.sid)
        pos0 = z3.Select(old.get(old.ghost["iters"], "pos"), i0)
        pos1 = st.get(st.ghost["iters"], "pos")
        nx = _nexts(st)
        r = result.e if isinstance(result, VOpaque) else U_NONE
        return [("items come only from a stream the server still knows", p0),
                ("exactly one item is taken, from this stream's own iterator", z3.BoolVal(len(nx) == 1) if len(nx) != 1 else nx[0][1] == i0),
                ("the item returned is the next one of that iterator", z3.And(r == item_of(i0, pos0), pos0 < stops_at(i0))),
                ("the iterator advanced by exactly one item and no other iterator moved", pos1 == z3.Store(old.get(old.ghost["iters"], "pos"), i0, pos0 + 1)),
                ("the stream stays registered with the same iterator and creation time", z3.And(p1, i1 == i0, c1 == c0)),
                ("a lingering stream is re-attached to the calling connection and its linger clock is cleared",
                 z3.Implies(o0 == U_NONE, z3.And(o1 == self.client.e, l1 == 0))),
                ("an attached stream keeps its owner and linger state", z3.Implies(o0 != U_NONE, z3.And(o1 == o0, l1 == l0))),
                self._frame(old, st)]

    def x_any(self, E, old, st, a, exc):
        p0, o0, c0, l0, i0 = entry(old, self.t, self.sid)
        p1 = entry(st, self.t, self.sid)[0]
        nx = _nexts(st)
        pos_same = st.get(st.ghost["iters"], "pos") == old.get(old.ghost["iters"], "pos")
        vc = st.get(exc, "__cls__")
        unknown_is_pyroerror = z3.BoolVal(vc.qname == "Pyro5.errors.PyroError") if not nx else z3.BoolVal(True)
        from_gen = [e for e in st.events if e[0] == "raised_by" and e[1] == "generator_ends"]
        return [("an unknown (forgotten) stream id gets an error and no iterator is touched", z3.Implies(z3.Not(p0), z3.BoolVal(not nx))),
                ("... that error is PyroError", z3.Implies(z3.Not(p0), unknown_is_pyroerror)),
                ("a known stream fails only because its own iterator ended or raised", z3.Implies(p0, z3.BoolVal(len(nx) == 1) if len(nx) != 1 else nx[0][1] == i0)),
                ("after exhaustion or a generator error the server has forgotten the stream", z3.Not(p1)),
                ("a failing fetch consumes no item", pos_same),
                ("what the generator raised is what propagates (StopIteration included)", z3.BoolVal(not nx or exc_is_from(st, exc, "generator_ends"))),
                self._frame(old, st)]


def exc_is_from(st, exc, what):
    """the raised exception object is the one the named user-code step raised (symbolic exceptions carry their origin in the class-term name)"""
    vc = st.get(exc, "__cls__")
    return vc.qname is None and what in str(vc.term)


@R.contract
class CloseStream(_StreamBase):
    name = "Pyro5.server.DaemonObject.close_stream"
    raises = {}

    def setup(self, E, st):
        d, t = _daemon_with_table(E, st)
        self.t = t
        self.sid = z3.Const("streamId", StrS)
        return {"self": st.new_obj("Pyro5.server.DaemonObject", daemon=d), "streamId": VStr(self.sid)}

    def ensures(self, E, old, st, a, result):
        return [("the closed stream is forgotten", z3.Not(entry(st, self.t, self.sid)[0])),
                ("closing touches no iterator", z3.BoolVal(not _nexts(st))),
                ("every other stream's entry is untouched", z3.Implies(KSTAR != self.sid, same_entry(old, st, self.t, KSTAR)))]


# ----------------------------------------------------------------------------------------------------------------------
R.glob("collections.abc.Iterator", VClass("collections.abc.Iterator", None), "abstract base class: membership is an uninterpreted predicate of the value")


_prev_type = R.specs.get("builtins.type")


@R.spec("builtins.type", doc="type({}.keys()) etc.: the three dict-view classes as distinct class constants")
def b_type(E, st, args, kw):
    v = args[0]
    if len(args) == 1 and isinstance(v, VObj) and v.cls == "seqdict_view":
        return [Res(st, VClass(None, z3.Const("class_dict_%s_view" % st.get(v, "kind"), Cls)))]
    return _prev_type(E, st, args, kw)


@R.spec("inspect.isgenerator", doc="uninterpreted (part of the is-an-iterator predicate)")
def insp_isgen(E, st, args, kw):
    return [Res(st, VBool(z3.Function("inspect_isgenerator", U, BoolS)(args[0].e)))]


@R.contract
class StreamResponse(_StreamBase):
    name = "Pyro5.server.Daemon._streamResponse#body"
    real_name = "Pyro5.server.Daemon._streamResponse"
    raises = {"Pyro5.errors.PyroError": "x_refused"}

    def setup(self, E, st):
        d, t = _daemon_with_table(E, st)
        self.t = t
        self.data = VOpaque(z3.Const("data", U))
        self.client = VOpaque(z3.Const("client", U))
        st.assume(self.data.e != U_NONE, self.client.e != U_NONE)
        return {"self": d, "data": self.data, "client": self.client}

    def local_abstraction(self, E, st, name, val):
        return val

    def ensures(self, E, old, st, a, result):
        isstream, out = result.items
        wr = _writes(st)
        new_id = wr[0][1] if len(wr) == 1 and wr[0][0] == "table_write" else None
        post = [("a non-iterator result is handed back unchanged and registers nothing",
                 z3.Implies(z3.Not(isstream.e), z3.BoolVal(isinstance(out, VOpaque) and z3.eq(out.e, self.data.e) and not wr))),
                ("with streaming disabled nothing is registered and no id is handed out", z3.Implies(z3.And(isstream.e, z3.Not(STREAMING)), z3.BoolVal(isinstance(out, VNone) and not wr))),
                ("no iterator is advanced while registering", z3.BoolVal(not _nexts(st)))]
        if new_id is not None:
            p1, o1, c1, l1, i1 = entry(st, self.t, new_id)
            post += [("the id handed out is the registered key", z3.BoolVal(isinstance(out, VStr)) if not isinstance(out, VStr) else out.e == new_id),
                     ("the new entry is (this connection, now, not lingering, the returned iterator)",
                      z3.And(p1, o1 == self.client.e, l1 == 0, i1 == self.data.e, c1 >= old.ghost["clock"].e)),
                     ("every other stream's entry is untouched", z3.Implies(KSTAR != new_id, same_entry(old, st, self.t, KSTAR)))]
        else:
            post.append(("at most one entry is written", z3.BoolVal(not wr)))
            post.append(("table unchanged", same_entry(old, st, self.t, KSTAR)))
        return post

    def x_refused(self, E, old, st, a, exc):
        return [("a refused iterator registers nothing", z3.BoolVal(not _writes(st))), ("table unchanged", same_entry(old, st, self.t, KSTAR))]


# ----------------------------------------------------------------------------------------------------------------------
def _snap(st):
    return st.ghost.get("last_snapshot")


@R.contract
class ClientDisconnectStreams(_StreamBase):
    name = "Pyro5.server.Daemon._clientDisconnect#streams"
    real_name = "Pyro5.server.Daemon._clientDisconnect"
    raises = {"builtins.Exception": "x_hook"}
    raises_any_subclass = ("builtins.Exception",)

    def setup(self, E, st):
        d, t = _daemon_with_table(E, st)
        self.t = t
        self.conn = VOpaque(z3.Const("conn", U))
        st.assume(self.conn.e != U_NONE)
        return {"self": d, "conn": self.conn}

    def table_post(self, old, st):
        p0, o0, c0, l0, i0 = entry(old, self.t, KSTAR)
        p1, o1, c1, l1, i1 = entry(st, self.t, KSTAR)
        t_in, t_out = old.ghost["clock"].e, st.ghost["clock"].e
        mine = z3.And(p0, o0 == self.conn.e)
        return [("linger enabled: exactly this connection's streams become ownerless with a linger clock read during the disconnect; iterator and creation time kept",
                 z3.Implies(z3.And(LINGER > 0, mine), z3.And(p1, o1 == U_NONE, c1 == c0, i1 == i0, l1 >= t_in, l1 <= t_out, l1 > 0))),
                ("linger disabled: exactly this connection's streams are forgotten", z3.Implies(z3.And(z3.Not(LINGER > 0), mine), z3.Not(p1))),
                ("streams of other connections (and lingering ones) are untouched", z3.Implies(z3.Not(mine), same_entry(old, st, self.t, KSTAR))),
                ("no iterator is advanced by a disconnect", z3.BoolVal(not _nexts(st)))]

    def ensures(self, E, old, st, a, result):
        hooks = [e for e in st.events if e[0] == "clientDisconnect"]
        return self.table_post(old, st) + [("the user's disconnect hook runs exactly once", z3.BoolVal(len(hooks) == 1))]

    def x_hook(self, E, old, st, a, exc):
        hooks = [e for e in st.events if e[0] == "clientDisconnect"]
        return self.table_post(old, st) + [("only the user's hook can fail, after the table was updated", z3.BoolVal(len(hooks) == 1))]

    def loop_modifies(self, k, E, st, a):
        return [(self.t, "dom"), (self.t, "owner"), (self.t, "created"), (self.t, "linger"), (self.t, "it"), ("ghost", "clock")]

    def loop_inv(self, k, E, old, st, a):
        snap = _snap(st)
        idx = st.ghost["idx%d" % k].e
        p0, o0, c0, l0, i0 = entry(old, self.t, KSTAR)
        p1, o1, c1, l1, i1 = entry(st, self.t, KSTAR)
        t_in, now = old.ghost["clock"].e, st.ghost["clock"].e
        mine = z3.And(p0, o0 == self.conn.e)
        visited = z3.And(p0, snap.pos(KSTAR) < idx)
        inv = [("index in range", z3.And(0 <= idx, idx <= snap.n)), ("clock monotone", now >= t_in),
               ("snapshot is of the table at entry", z3.BoolVal(z3.eq(snap.dom, old.get(self.t, "dom")))),
               ("unvisited or foreign entries unchanged", z3.Implies(z3.Not(z3.And(visited, mine)), same_entry(old, st, self.t, KSTAR)))]
        if k == 0:
            inv.append(("visited own entries linger", z3.Implies(z3.And(visited, mine), z3.And(p1, o1 == U_NONE, c1 == c0, i1 == i0, l1 >= t_in, l1 <= now, l1 > 0))))
        else:
            inv.append(("visited own entries deleted", z3.Implies(z3.And(visited, mine), z3.Not(p1))))
        return inv


@R.contract
class HousekeepingStreams(_StreamBase):
    name = "Pyro5.server.Daemon._housekeeping#streams"
    real_name = "Pyro5.server.Daemon._housekeeping"
    raises = {"builtins.Exception": "x_hook"}
    raises_any_subclass = ("builtins.Exception",)

    def setup(self, E, st):
        d, t = _daemon_with_table(E, st)
        self.t = t
        return {"self": d}

    def life_expired(self, old, t):
        return z3.And(LIFETIME > 0, t - entry(old, self.t, KSTAR)[2] > LIFETIME)

    def linger_expired(self, old, t):
        l0 = entry(old, self.t, KSTAR)[3]
        return z3.And(LINGER > 0, l0 != 0, t - l0 > LINGER)

    def common(self, old, st):
        p0 = entry(old, self.t, KSTAR)[0]
        p1 = entry(st, self.t, KSTAR)[0]
        now = st.ghost["clock"].e
        return [("entries are only ever deleted by housekeeping, never altered or added",
                 z3.And(z3.Implies(p1, p0), *[st.get(self.t, f) == old.get(self.t, f) for f in ("owner", "created", "linger", "it")])),
                ("a stream is forgotten only when past its lifetime, or past its linger period after a disconnect",
                 z3.Implies(z3.And(p0, z3.Not(p1)), z3.Or(self.life_expired(old, now), self.linger_expired(old, now)))),
                ("no iterator is advanced by housekeeping", z3.BoolVal(not _nexts(st)))]

    def table_post(self, old, st):
        p1 = entry(st, self.t, KSTAR)[0]
        t_in = old.ghost["clock"].e
        sd = z3.Const("shutting_down", BoolS)
        return self.common(old, st) + [
            ("afterwards no stream that was past its lifetime when housekeeping began is still known", z3.Implies(z3.And(z3.Not(sd), p1), z3.Not(self.life_expired(old, t_in)))),
            ("afterwards no stream that was past its linger period when housekeeping began is still known", z3.Implies(z3.And(z3.Not(sd), p1), z3.Not(self.linger_expired(old, t_in))))]

    def ensures(self, E, old, st, a, result):
        return self.table_post(old, st)

    def x_hook(self, E, old, st, a, exc):
        hooks = [e for e in st.events if e[0] == "housekeeping"]
        return self.table_post(old, st) + [("only the user's housekeeping hook can fail, after the table was cleaned", z3.BoolVal(len(hooks) == 1))]

    def loop_modifies(self, k, E, st, a):
        return [(self.t, "dom"), ("ghost", "clock")]

    def loop_inv(self, k, E, old, st, a):
        snap = _snap(st)
        idx = st.ghost["idx%d" % k].e
        p1 = entry(st, self.t, KSTAR)[0]
        t_in, now = old.ghost["clock"].e, st.ghost["clock"].e
        visited = snap.pos(KSTAR) < idx
        inv = [("index in range", z3.And(0 <= idx, idx <= snap.n)), ("clock monotone", now >= t_in),
               ("still present implies it was in this loop's snapshot", z3.Implies(p1, z3.Select(snap.dom, KSTAR)))] + self.common(old, st)[:2]
        if k == 0:
            inv.append(("visited and kept: not past lifetime at entry", z3.Implies(z3.And(p1, visited), z3.Not(self.life_expired(old, t_in)))))
        else:
            inv.append(("lifetime pass done", z3.Implies(z3.And(LIFETIME > 0, p1), z3.Not(self.life_expired(old, t_in)))))
            inv.append(("visited and kept: not past linger at entry", z3.Implies(z3.And(p1, visited), z3.Not(self.linger_expired(old, t_in)))))
        return inv


# ----------------------------------------------------------------------------------------------------------------------
# client side: _StreamResultIterator

def _pi_result(self, E, st, a):
    return VOpaque(fresh("remote_result", U))


CI.PyroInvoke.result = _pi_result       # call sites get an arbitrary value back (the body contract is C03's)


@R.model("Pyro5.client.Proxy")
class ProxyAsContextManager:
    """`with proxy:` == __enter__ returns the proxy, __exit__ releases its connection and lets exceptions through (3-line repo methods, as specified)"""

    def getattr(self, E, st, obj, name):
        return None

    def enter(self, E, st, cm, node):
        return [Res(st, cm)]

    def exit(self, E, out, cm, node):
        out.st.set(cm, "_pyroConnection", NONE)
        out.st.event("released", cm.ref)
        return [out]

    methods = {}


@R.spec("Pyro5.client.Proxy.__copy__", doc="a new, unconnected Proxy for the same URI (state copied); declared")
def proxy_copy(E, st, args, kw):
    p = st.new_obj("Pyro5.client.Proxy", _pyroConnection=NONE, _pyroSeq=VInt(0), copy_of=args[0])
    st.event("proxy_copy", p.ref)
    return [Res(st, p)]


def _invokes(st):
    return [e for e in st.events if e[0] == "call" and e[1].endswith("Proxy._pyroInvoke")]


def _is_const_str(v, text):
    return isinstance(v, VStr) and z3.is_string_value(z3.simplify(v.e)) and z3.simplify(v.e).as_string() == text


class _IterBase(_StreamBase):
    variants = ("ended", "closed-connection", "open")
    trusted = ("Proxy._pyroInvoke is taken by its call-site interface: any result, or any exception class (its own body is under contract in C03); "
               "Proxy.__copy__/__enter__/__exit__ as declared", )

    def mk(self, E, st):
        self.sid = z3.Const("streamId", StrS)
        self.seq = z3.Const("iter_seq", IntS)
        it = st.new_obj("Pyro5.client._StreamResultIterator", streamId=VStr(self.sid), pyroseq=VInt(self.seq))
        if self.variant == "ended":
            st.set(it, "proxy", NONE)
            self.proxy = None
        else:
            p = st.new_obj("Pyro5.client.Proxy", _pyroSeq=VInt(z3.Const("proxy_seq", IntS)))
            st.set(p, "_pyroConnection", NONE if self.variant == "closed-connection" else VOpaque(z3.Const("proxy_connection", U)))
            if self.variant == "open":
                st.assume(z3.Const("proxy_connection", U) != U_NONE)
            st.set(it, "proxy", p)
            self.proxy = p
        st.genv = {"current_context": new_call_context(st)}
        self.it = it
        return {"self": it}

    def right_call(self, e, method, oneway):
        a = e[2]
        vargs = a["vargs"]
        ok = _is_const_str(a["methodname"], method) and isinstance(vargs, VList) and len(vargs.items) == 1 and isinstance(vargs.items[0], VStr)
        if not ok:
            return z3.BoolVal(False)
        flags = a["flags"].e if isinstance(a.get("flags"), VInt) else None
        return z3.And(vargs.items[0].e == self.sid, z3.BoolVal(_is_const_str(a["objectId"], "Pyro.Daemon")),
                      (flags == 4) if oneway else z3.BoolVal(flags is None or z3.is_true(z3.simplify(flags == 0))))


@R.contract
class StreamIterNext(_IterBase):
    name = "Pyro5.client._StreamResultIterator.__next__"
    never_returns = ("ended", "closed-connection")        # these variants are the raising cases by construction
    raises = {"builtins.BaseException": "x_any"}
    raises_any_subclass = ("builtins.BaseException",)

    def setup(self, E, st):
        return self.mk(E, st)

    def ensures(self, E, old, st, a, result):
        inv = _invokes(st)
        ok = len(inv) == 1 and inv[0][3] == "return"
        return [("an item is produced only by an iterator that has not ended and whose proxy is connected", z3.BoolVal(self.variant == "open")),
                ("exactly one remote get_next_stream_item call per item", z3.BoolVal(ok)),
                ("... for this stream's id, on the daemon object, not oneway", self.right_call(inv[0], "get_next_stream_item", False) if ok else z3.BoolVal(False)),
                ("the item handed to the caller is what that call returned", z3.BoolVal(ok and isinstance(result, VOpaque) and z3.eq(result.e, inv[0][4].e))),
                ("the iterator stays usable", z3.BoolVal(isinstance(st.get(self.it, "proxy"), VObj)))]

    def x_any(self, E, old, st, a, exc):
        inv = _invokes(st)
        vc = st.get(exc, "__cls__")
        stop = E.cls_cond(vc, "builtins.StopIteration")
        gexit = E.cls_cond(vc, "builtins.GeneratorExit")
        stop = z3.BoolVal(stop) if isinstance(stop, bool) else stop
        gexit = z3.BoolVal(gexit) if isinstance(gexit, bool) else gexit
        ended_after = isinstance(st.get(self.it, "proxy"), VNone)
        post = []
        if self.variant == "ended":
            post += [("an ended iterator keeps raising StopIteration and calls nothing", z3.And(stop, z3.BoolVal(not inv)))]
        elif self.variant == "closed-connection":
            post += [("with the proxy closed: ConnectionClosedError, nothing is called, the iterator does not pretend to be exhausted",
                      z3.BoolVal(vc.qname == "Pyro5.errors.ConnectionClosedError" and not inv and not ended_after))]
        else:
            one = len(inv) == 1 and inv[0][3] == "raise"
            post += [("a failing fetch is exactly one remote call whose exception propagates unchanged", z3.BoolVal(one and inv[0][4].ref == exc.ref)),
                     ("the iterator ends (sticky StopIteration) exactly when the server signalled exhaustion; any other error leaves it open",
                      z3.BoolVal(ended_after) == z3.Or(stop, gexit))]
        return post


@R.contract
class StreamIterClose(_IterBase):
    name = "Pyro5.client._StreamResultIterator.close"
    raises = {"builtins.BaseException": "x_any"}
    raises_any_subclass = ("builtins.BaseException",)

    def setup(self, E, st):
        return self.mk(E, st)

    def common(self, st):
        inv = _invokes(st)
        post = [("at most one close_stream request", z3.BoolVal(len(inv) <= 1))]
        for e in inv:
            post.append(("it names this stream, goes to the daemon object and is oneway", self.right_call(e, "close_stream", True)))
            onproxy = e[2]["self"]
            in_sync = self.seq == z3.Const("proxy_seq", IntS)
            post.append(("the stream's own proxy is used only while its sequence numbers are in step; otherwise a temporary copy",
                         z3.BoolVal(onproxy.ref == self.proxy.ref) == in_sync if self.proxy is not None else z3.BoolVal(False)))
        if self.variant != "open":
            post.append(("nothing is sent without a connected proxy", z3.BoolVal(not inv)))
        return post

    def ensures(self, E, old, st, a, result):
        inv = _invokes(st)
        post = self.common(st) + [("afterwards the iterator is ended", z3.BoolVal(isinstance(st.get(self.it, "proxy"), VNone)))]
        if self.variant == "open":
            comm_failed = [e for e in inv if e[3] == "raise"]
            post.append(("a connected iterator tells the server (one request), unless a communication error of the temporary proxy was suppressed",
                         z3.BoolVal(len(inv) == 1)))
            copies = [e for e in st.events if e[0] == "proxy_copy"]
            rel = [e for e in st.events if e[0] == "released"]
            post.append(("a temporary proxy is always released again", z3.BoolVal(len(copies) == len(rel) and all(c[1] == r[1] for c, r in zip(copies, rel)))))
        return post

    def x_any(self, E, old, st, a, exc):
        inv = _invokes(st)
        copies = [e for e in st.events if e[0] == "proxy_copy"]
        rel = [e for e in st.events if e[0] == "released"]
        return self.common(st) + [("only the close request itself can fail", z3.BoolVal(len(inv) == 1 and inv[0][3] == "raise" and inv[0][4].ref == exc.ref)),
                                  ("a temporary proxy is released even then", z3.BoolVal(len(copies) == len(rel)))]


@R.lemma("C10:stream-table-frame", props=("C10",))
def stream_table_frame(E):
    """the daemon's item-stream table is written only by the five functions under contract, by the constructor, and by close() / shutdown() (which empty it when the
    daemon goes down: outside the claim)"""
    from contracts.frames import frame_obligations
    D = "Pyro5/server.py:Daemon."
    frame_obligations(E, "item streams", {"streaming_responses": {
        D + "__init__", D + "_streamResponse", D + "_clientDisconnect", D + "_housekeeping", D + "close", D + "shutdown",
        "Pyro5/server.py:DaemonObject.get_next_stream_item", "Pyro5/server.py:DaemonObject.close_stream"}})
