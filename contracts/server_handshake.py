"""Sidecar contract for Daemon._handshake (C08; used by C05, C12, C13, C18)."""
import z3
from pyvc.values import *
from pyvc.engine import Contract, Res
from pyvc.registry import R
from specs.daemon_model import new_daemon, new_call_context
from specs.opaque import box
from contracts.socketutil import new_connection

MSG_CONNECT, MSG_CONNECTOK, MSG_CONNECTFAIL = 1, 2, 3


def calls(st, suffix, outcome=None):
    return [e for e in st.events if e[0] == "call" and e[1].endswith(suffix) and (outcome is None or e[3] == outcome)]


def sends_on(st, conn):
    """(data V, outcome) of every SocketConnection.send on `conn` along this path"""
    return [(e[2]["data"], e[3]) for e in st.events if e[0] == "call" and e[1].endswith("SocketConnection.send") and e[2]["self"].ref == conn.ref]


def built_messages(st):
    """SendingMessage objects constructed along this path: (object, args)"""
    return [(e[2]["self"], e[2]) for e in calls(st, "SendingMessage.__init__", "return")]


def message_of(st, data):
    for obj, a in built_messages(st):
        d = st.get(obj, "data")
        if d is data or (isinstance(d, VBytes) and z3.eq(d.e, data.e)):
            return obj, a
    return None, None


def user_calls(st, kinds=None):
    return [e for e in st.events if e[0] in ("user_call", "validateHandshake", "clientDisconnect", "housekeeping") and (kinds is None or e[0] in kinds)]


@R.contract
class Handshake(Contract):
    name = "Pyro5.server.Daemon._handshake"
    props = ("C08", "C05", "C12")
    variants = ("normal", "denied")
    raises = {"builtins.Exception": "x_any"}
    raises_any_subclass = ("builtins.Exception",)
    trusted = ("validateHandshake, annotations() are user code; serializer loads/dumps are uninterpreted and may raise",
               "DaemonObject.get_metadata returns only for a registered object id (model DaemonObjectModel; its real body is under contract in the registry group: contracts/registry.py GetMetadata)")

    def setup(self, E, st):
        d = new_daemon(E, st)
        conn = new_connection(E, st)
        st.genv = {"current_context": new_call_context(st)}
        reason = NONE if getattr(self, "variant", "normal") == "normal" else VStr(z3.Const("denied_reason", StrS))
        st.ghost["user_calls"] = VInt(0)
        return {"self": d, "conn": conn, "denied_reason": reason}

    def modifies(self, E, st, a):
        s = st.get(a["conn"], "sock")
        return [(s, "pos"), (s, "out"), (s, "eof"), (s, "fatal")]

    def result(self, E, st, a):
        return VBool(fresh("handshake_ok", BoolS))

    def _facts(self, E, old, st, a):
        conn = a["conn"]
        snd = sends_on(st, conn)
        recv = calls(st, "protocol.recv_stub")
        return conn, snd, recv

    def ensures(self, E, old, st, a, result):
        if E.cur_contract is not self:
            return []          # call site: callers only learn that a bool comes back (the rest is about the internal event log)
        conn, snd, recv = self._facts(E, old, st, a)
        if not isinstance(result, VBool):
            return [("returns True or False (callers test the result)", z3.BoolVal(False))]
        ok = result.e
        post = []
        got = [e for e in recv if e[3] == "return"]
        validators = [e for e in st.events if e[0] == "validateHandshake"]
        metas = [e for e in st.events if e[0] == "get_metadata"]
        completed = [s for s in snd if s[1] == "return"]
        post.append(("at most one message is sent", z3.BoolVal(len(snd) <= 1)))
        post.append(("no object method is invoked", z3.BoolVal(not any(e[0] == "user_call" for e in st.events))))
        if completed:
            mobj, margs = message_of(st, completed[0][0])
            post.append(("what is sent is a freshly built protocol message", z3.BoolVal(mobj is not None)))
            if mobj is not None:
                mt = margs["msgtype"].e
                post.append(("the answer is CONNECTOK or CONNECTFAIL", z3.Or(mt == MSG_CONNECTOK, mt == MSG_CONNECTFAIL)))
                post.append(("returns True iff CONNECTOK was sent", ok == (mt == MSG_CONNECTOK)))
                accepted = bool(got) and bool(validators) and bool(metas)
                post.append(("CONNECTOK only after: CONNECT received, validator returned, requested object is registered",
                             z3.Implies(mt == MSG_CONNECTOK, z3.BoolVal(accepted))))
                if got:
                    msg = got[0][4]
                    post.append(("the first message was a CONNECT", z3.Implies(mt == MSG_CONNECTOK, old_type(st, msg) == MSG_CONNECT)))
                    post.append(("answer carries the request's sequence number", margs["seq"].e == st.get(msg, "seq").e))
                # CONNECTFAIL carries the reason: its payload is dumps(str(reason exception))
                dumps = [e for e in st.events if e[0] == "dumps"]
                carried = [e for e in dumps if isinstance(e[2], VStr) and margs["payload"] is e[3]]
                post.append(("CONNECTFAIL carries str(reason)", z3.Implies(mt == MSG_CONNECTFAIL, z3.BoolVal(bool(carried)))))
                ann = margs["annotations"]
                prov = st.get(ann, "prov", frozenset()) if isinstance(ann, VObj) else frozenset(["?"])
                post.append(("C12: the answer carries no annotations of an earlier request",
                             z3.BoolVal(prov <= frozenset(["empty", "daemon.annotations()"]))))
        else:
            post.append(("nothing sent only when the peer closed early: returns False", z3.Not(ok)))
            closed_early = [e for e in recv if e[3] == "raise"]
            # KNOWN FINDING C08-user-raised-connection-closed (known_findings.json): the handler that recognises "peer closed
            # early" also swallows a ConnectionClosedError raised by user code (validator / payload decoding / metadata), so the
            # peer then gets no CONNECTFAIL.  That case is excluded here by its exact shape (nothing was sent, the message had
            # been received, and the silent return happened through the ConnectionClosedError handler); anything else fails.
            user_raised_closed = bool(got) and not snd and any(t.endswith("L%d:except" % self.closed_handler_line(E)) for t in st.trace)
            post.append(("nothing sent only when the peer closed early", z3.BoolVal((bool(closed_early) and not snd) or user_raised_closed)))
        if isinstance(a["denied_reason"], VStr):
            reason = a["denied_reason"]
            post.append(("a denied connection is never accepted", z3.Implies(z3.Length(reason.e) > 0, z3.Not(ok))))
            post.append(("a denied connection never reaches the validator", z3.Implies(z3.Length(reason.e) > 0, z3.BoolVal(not validators))))
        ra = st.get(st.genv["current_context"], "response_annotations")
        post.append(("C12: response annotations of an earlier request are dropped at the start",
                     z3.BoolVal(ra.ref != old.get(old.genv["current_context"], "response_annotations").ref)))
        return post

    def closed_handler_line(self, E):
        import ast as _ast
        mod, fnode = E.contract_fnode(self)
        for n in _ast.walk(fnode):
            if isinstance(n, _ast.ExceptHandler) and n.type is not None and "ConnectionClosedError" in _ast.dump(n.type):
                return n.lineno
        return -1

    def x_any(self, E, old, st, a, exc):
        if E.cur_contract is not self:
            return []
        conn, snd, recv = self._facts(E, old, st, a)
        # an exception may leave the handshake only from building or sending the answer (reply too large / bad annotation,
        # annotations() hook raising, send failing): the peer is then beyond reach.  Anything else escaping means the peer
        # got no CONNECTFAIL although it could have.
        building = bool(calls(st, "SendingMessage.__init__")) or any("annotations() raises" in t for t in st.trace)
        return [("at most one send attempted", z3.BoolVal(len(snd) <= 1)),
                ("escapes only while building or sending the answer", z3.BoolVal(bool(snd) or building)),
                ("no object method is invoked", z3.BoolVal(not any(e[0] == "user_call" for e in st.events)))]


def old_type(st, msg):
    return st.get(msg, "type").e
