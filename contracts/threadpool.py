"""Sidecar contracts for svr_threads.Pool / Worker (C18): hand-off to exactly one worker or refusal, bounded workers, monitor
discipline on count_lock."""
import z3
from pyvc.values import *
from pyvc.engine import Contract, Res, Unsupported
from pyvc.registry import R
from specs.opaque import may_raise

WSet = z3.ArraySort(U, BoolS)
SIZE = z3.Const("config_THREADPOOL_SIZE", IntS)
SIZE_MIN = z3.Const("config_THREADPOOL_SIZE_MIN", IntS)


class _WS(V):
    """finite set of workers: membership array + cardinality"""
    __slots__ = ("dom", "card")

    def __init__(self, dom, card):
        self.dom, self.card = dom, card

    def truth_term(self):
        return self.card > 0

    def fresh_like(self, name):
        return _WS(fresh(name + "_dom", WSet), fresh(name + "_card", IntS))

    def contains_term(self, item):
        return z3.Select(self.dom, item.e) if isinstance(item, VOpaque) else z3.BoolVal(False)

    def len_term(self):
        return self.card


def _acc(E, st, pool, field):
    c = getattr(E, "cur_contract", None)
    if c is not None and hasattr(c, "on_pool_access"):
        c.on_pool_access(E, st, pool, field)


@R.model("Pyro5.svr_threads.Pool")
class PoolModel:
    """the Pool object: reads/writes of idle, busy, closed are the monitored accesses"""
    GUARDED = ("idle", "busy", "closed")

    def getattr(self, E, st, obj, name):
        if name in self.GUARDED:
            _acc(E, st, obj, name)
        return None

    def setattr(self, E, st, obj, name, val):
        if name in self.GUARDED:
            _acc(E, st, obj, name)
        return None

    methods = {}


@R.method("_WS", "mut:pop")
def ws_pop(E, st, recv, vals):
    w = fresh("popped_worker", U)
    out = []
    for s2, ok in E.branch(st, recv.card > 0):
        if ok:
            s2.assume(z3.Select(recv.dom, w), w != U_NONE)
            out.append((s2, _WS(z3.Store(recv.dom, w, z3.BoolVal(False)), recv.card - 1), VOpaque(w), None))
        else:
            out.append((s2, recv, None, E.new_exc(s2, "builtins.KeyError")))
    return out


@R.method("_WS", "mut:add")
def ws_add(E, st, recv, vals):
    w = vals[0].e
    return [(st, _WS(z3.Store(recv.dom, w, z3.BoolVal(True)), z3.If(z3.Select(recv.dom, w), recv.card, recv.card + 1)), NONE, None)]


@R.method("_WS", "mut:remove")
def ws_remove(E, st, recv, vals):
    w = vals[0].e
    out = []
    for s2, ok in E.branch(st, z3.Select(recv.dom, w)):
        if ok:
            s2.assume(recv.card >= 1)        # card is the cardinality of dom: a set with a member has at least one element
            out.append((s2, _WS(z3.Store(recv.dom, w, z3.BoolVal(False)), recv.card - 1), NONE, None))
        else:
            out.append((s2, recv, None, E.new_exc(s2, "builtins.KeyError")))
    return out


@R.method("_WS", "mut:discard")
def ws_discard(E, st, recv, vals):
    w = vals[0].e
    s2 = st.fork()
    st.assume(z3.Select(recv.dom, w), recv.card >= 1)
    s2.assume(z3.Not(z3.Select(recv.dom, w)))
    return [(st, _WS(z3.Store(recv.dom, w, z3.BoolVal(False)), recv.card - 1), NONE, None), (s2, recv, NONE, None)]


def new_pool(E, st, name="pool"):
    pool = st.new_obj("Pyro5.svr_threads.Pool")
    idle = _WS(z3.Const(name + "_idle", WSet), z3.Const(name + "_n_idle", IntS))
    busy = _WS(z3.Const(name + "_busy", WSet), z3.Const(name + "_n_busy", IntS))
    st.heap[pool.ref].update(idle=idle, busy=busy, closed=VBool(z3.Const(name + "_closed", BoolS)),
                             count_lock=st.new_obj("lock", name="count_lock"))
    return pool


def pool_inv(idle, busy):
    """monitor invariant P: idle and busy are disjoint finite sets of live workers, never more than THREADPOOL_SIZE of them"""
    w = z3.Const("w!inv", U)
    return [idle.card >= 0, busy.card >= 0, idle.card + busy.card <= SIZE,
            z3.ForAll([w], z3.Not(z3.And(z3.Select(idle.dom, w), z3.Select(busy.dom, w))))]


class _PoolOp(Contract):
    props = ("C18",)
    log_calls = False
    trusted = ("threading.Lock provides mutual exclusion; with M1 (every access to idle/busy/closed under count_lock) and M3 (one critical section per operation) "
               "the sequentially proved invariant P holds whenever the lock is free, for every interleaving (DESIGN 2.5; not machine checked)",
               "Worker(pool) creates a new thread object that is in neither set; start()/process() do not raise")

    def base(self, E, st):
        self.pool = new_pool(E, st)
        st.assume(SIZE >= 1, SIZE_MIN >= 1, SIZE_MIN <= SIZE)
        st.assume(*pool_inv(st.get(self.pool, "idle"), st.get(self.pool, "busy")))
        st.ghost["sections"] = VInt(0)
        return self.pool

    def on_lock(self, E, st, cm, phase):
        if cm.ref == st.get(self.pool, "count_lock").ref and phase == "enter":
            st.ghost["sections"] = VInt(st.ghost["sections"].e + 1)

    def on_pool_access(self, E, st, pool, field):
        if getattr(E, "in_dropped_call", 0):
            return          # set sizes read only to format a debug log line (dropped call): not a monitored access
        if pool.ref == self.pool.ref:
            lock = st.heap[pool.ref]["count_lock"]
            E.oblige(st, "lock:Pool.%s-accessed-while-holding-count_lock" % field, z3.BoolVal(st.locks.get(lock.ref, 0) > 0), kind="lock")

    def sections_ok(self, st):
        sec = z3.simplify(st.ghost["sections"].e)
        return ("M3: one critical section per operation", z3.BoolVal(z3.is_int_value(sec) and sec.as_long() <= 1))

    def handoffs(self, st):
        return [e for e in st.events if e[0] == "handoff"]

    def P(self, st):
        return z3.And(pool_inv(st.heap[self.pool.ref]["idle"], st.heap[self.pool.ref]["busy"]))


@R.spec("Pyro5.svr_threads.Worker", doc="Worker(pool): a new worker thread object, member of neither idle nor busy")
def worker_ctor(E, st, args, kw):
    pool = args[0]
    w = fresh("new_worker", U)
    st.assume(w != U_NONE, z3.Not(z3.Select(st.heap[pool.ref]["idle"].dom, w)), z3.Not(z3.Select(st.heap[pool.ref]["busy"].dom, w)))
    st.event("worker_created", VOpaque(w))
    return [Res(st, VOpaque(w))]


@R.method("VOpaque", "start")
def worker_start(E, st, recv, args, kw):
    st.event("worker_started", recv)
    return [Res(st, NONE)]


@R.method("VOpaque", "process")
def worker_process(E, st, recv, args, kw):
    """Worker.process(job): stores the job in the worker's slot and wakes it (verified separately as Worker.process)"""
    c = getattr(E, "cur_contract", None)
    if c is not None and hasattr(c, "on_handoff"):
        c.on_handoff(E, st, recv, args[0])
    st.event("handoff", recv, args[0])
    return [Res(st, NONE)]


@R.contract
class PoolProcess(_PoolOp):
    name = "Pyro5.svr_threads.Pool.process"
    raises = {"Pyro5.svr_threads.NoFreeWorkersError": "x_full", "Pyro5.svr_threads.PoolError": "x_closed"}

    def setup(self, E, st):
        return {"self": self.base(E, st), "job": VOpaque(z3.Const("job", U))}

    def ensures(self, E, old, st, a, result):
        if E.cur_contract is not self:
            return []
        h = self.handoffs(st)
        idle0, busy0 = old.heap[self.pool.ref]["idle"], old.heap[self.pool.ref]["busy"]
        idle, busy = st.heap[self.pool.ref]["idle"], st.heap[self.pool.ref]["busy"]
        post = [("the job is handed to exactly one worker", z3.BoolVal(len(h) == 1 and z3.eq(h[0][2].e, a["job"].e))),
                self.sections_ok(st), ("P: sets disjoint, workers <= THREADPOOL_SIZE", self.P(st)),
                ("pool was open", z3.Not(old.heap[self.pool.ref]["closed"].e))]
        if h:
            w = h[0][1].e
            created = [e for e in st.events if e[0] == "worker_created"]
            post += [("that worker is busy now and not idle", z3.And(z3.Select(busy.dom, w), z3.Not(z3.Select(idle.dom, w)))),
                     ("it was idle before, or it is a new worker started because fewer than THREADPOOL_SIZE existed",
                      z3.Or(z3.Select(idle0.dom, w), z3.And(z3.BoolVal(bool(created)), idle0.card == 0, idle0.card + busy0.card < SIZE))),
                     ("a new worker is started exactly when it is created", z3.BoolVal(
                         len(created) == len([e for e in st.events if e[0] == "worker_started"]) and len(created) <= 1))]
        return post

    def x_full(self, E, old, st, a, exc):
        idle0, busy0 = old.heap[self.pool.ref]["idle"], old.heap[self.pool.ref]["busy"]
        return [("refused only when no worker is idle and THREADPOOL_SIZE workers exist", z3.And(idle0.card == 0, idle0.card + busy0.card >= SIZE)),
                ("nothing changed, no job handed out", z3.BoolVal(not self.handoffs(st) and st.heap[self.pool.ref]["idle"] is idle0 and st.heap[self.pool.ref]["busy"] is busy0)),
                self.sections_ok(st), ("lock released", z3.BoolVal(all(v == 0 for v in st.locks.values())))]

    def x_closed(self, E, old, st, a, exc):
        return [("only when the pool is closed", old.heap[self.pool.ref]["closed"].e), ("no job handed out", z3.BoolVal(not self.handoffs(st))),
                ("lock released", z3.BoolVal(all(v == 0 for v in st.locks.values())))]


@R.contract
class PoolNotifyDone(_PoolOp):
    name = "Pyro5.svr_threads.Pool.notify_done"
    raises = {}

    def setup(self, E, st):
        p = self.base(E, st)
        self.w = VOpaque(z3.Const("worker", U))
        # the worker that reports back is not idle (it has just run a job)
        st.assume(z3.Not(z3.Select(st.heap[p.ref]["idle"].dom, self.w.e)), self.w.e != U_NONE)
        # ... and it is one of the busy workers (process() put it there), unless the pool was closed meanwhile
        st.assume(z3.Or(z3.Select(st.heap[p.ref]["busy"].dom, self.w.e), st.heap[p.ref]["closed"].e))
        return {"self": p, "worker": self.w}

    def ensures(self, E, old, st, a, result):
        if E.cur_contract is not self:
            return []
        idle, busy = st.heap[self.pool.ref]["idle"], st.heap[self.pool.ref]["busy"]
        h = self.handoffs(st)
        w = self.w.e
        retired = bool(h) and isinstance(h[0][2], VNone)
        return [("P: sets disjoint, workers <= THREADPOOL_SIZE", self.P(st)), self.sections_ok(st),
                ("the worker is no longer busy", z3.Not(z3.Select(busy.dom, w))),
                ("the worker is idle again, or it was told to exit (handed None) - never both, never neither",
                 z3.Select(idle.dom, w) != z3.BoolVal(retired)),
                ("no job is handed out here", z3.BoolVal(all(isinstance(e[2], VNone) for e in h) and len(h) <= 1)),
                ("a closed pool keeps no worker", z3.Implies(old.heap[self.pool.ref]["closed"].e, z3.BoolVal(retired))),
                ("lock released", z3.BoolVal(all(v == 0 for v in st.locks.values())))]


@R.contract
class PoolWorkerDied(_PoolOp):
    """Pool.worker_died(worker): a worker whose job ended with a BaseException leaves `busy` (so its slot is free again) and nothing else changes"""
    name = "Pyro5.svr_threads.Pool.worker_died"
    raises = {}

    def setup(self, E, st):
        p = self.base(E, st)
        self.w = VOpaque(z3.Const("worker", U))
        st.assume(self.w.e != U_NONE)
        return {"self": p, "worker": self.w}

    def ensures(self, E, old, st, a, result):
        if E.cur_contract is not self:
            return []
        idle, busy = st.heap[self.pool.ref]["idle"], st.heap[self.pool.ref]["busy"]
        idle0, busy0 = old.heap[self.pool.ref]["idle"], old.heap[self.pool.ref]["busy"]
        x = z3.Const("x!died", U)
        return [("P: sets disjoint, workers <= THREADPOOL_SIZE", self.P(st)), self.sections_ok(st),
                ("the dead worker is no longer counted as busy", z3.Not(z3.Select(busy.dom, self.w.e))),
                ("every other worker keeps its place", z3.ForAll([x], z3.Implies(x != self.w.e, z3.Select(busy.dom, x) == z3.Select(busy0.dom, x)))),
                ("the idle set is untouched, no job or exit order is handed out", z3.BoolVal(idle is idle0 and not self.handoffs(st))),
                ("lock released", z3.BoolVal(all(v == 0 for v in st.locks.values())))]


R.inline("Pyro5.svr_threads.Pool.num_workers")


# ----------------------------------------------------------------------------------------------------------------------
# Worker: the job slot protocol

@R.model("threading.Event")
class EventModel:
    """threading.Event: wait() returns when another thread has set it; in between that thread may have written the worker's job slot"""

    def getattr(self, E, st, obj, name):
        return None

    def m_wait(self, E, st, obj, args, kw):
        c = getattr(E, "cur_contract", None)
        if c is not None and hasattr(c, "on_wait"):
            c.on_wait(E, st, obj)
        return [Res(st, VBool(True))]

    def m_noop(self, E, st, obj, args, kw):
        return [Res(st, NONE)]

    methods = {"wait": m_wait, "clear": m_noop, "set": m_noop}


@R.model("Pyro5.svr_threads.Worker")
class WorkerModel:
    """the worker thread object: `job` is the one-element hand-off slot shared with Pool.process/notify_done/close"""

    def getattr(self, E, st, obj, name):
        return None

    def setattr(self, E, st, obj, name, val):
        c = getattr(E, "cur_contract", None)
        if name == "job" and c is not None and hasattr(c, "on_slot_write"):
            c.on_slot_write(E, st, obj, val)
        return None

    methods = {}


@R.contract
class WorkerRun(Contract):
    name = "Pyro5.svr_threads.Worker.run"
    props = ("C18", "C05")
    raises = {}
    log_calls = False
    trusted = ("while the worker is available (idle, or reported done) other threads may write its job slot; while it is running a job they do not "
               "(Pool.process only hands jobs to idle or new workers - proved in Pool.process)",
               "a job is a callable that may raise any Exception")

    def setup(self, E, st):
        w = st.new_obj("Pyro5.svr_threads.Worker")
        pool = new_pool(E, st)
        st.heap[w.ref].update(job=VOpaque(z3.Const("slot0", U)), pool=pool, job_available=st.new_obj("threading.Event"), name=VStr("worker"))
        st.ghost["available"] = VBool(True)        # the worker may be handed a job (its slot belongs to the pool)
        st.ghost["calls_this_round"] = VInt(0)
        self.w = w
        return {"self": w}

    def on_wait(self, E, st, ev):
        # the slot now holds whatever the pool handed over (a job, or None = exit)
        st.heap[self.w.ref]["job"] = VOpaque(fresh("handed_job", U))
        st.ghost["calls_this_round"] = VInt(0)

    def on_user_call(self, E, st, target, args, kwargs, kind):
        slot = st.heap[self.w.ref]["job"]
        E.oblige(st, "what is called is the job in the slot", z3.BoolVal(isinstance(slot, VOpaque) and isinstance(target, VOpaque) and z3.eq(slot.e, target.e)), kind="pre")
        E.oblige(st, "a job is called at most once", st.ghost["calls_this_round"].e == 0, kind="pre")
        st.ghost["calls_this_round"] = VInt(st.ghost["calls_this_round"].e + 1)
        st.ghost["available"] = VBool(False)       # taken: from now on the slot is the worker's until it reports done

    def on_slot_write(self, E, st, obj, val):
        if obj.ref == self.w.ref:
            E.oblige(st, "the worker writes its job slot only while it owns it (after taking a job, before reporting done)",
                     z3.Not(st.ghost["available"].e), kind="lock")

    def on_contract_call(self, E, st, callee, a):
        if callee.name.endswith("Pool.notify_done"):
            slot = st.heap[self.w.ref]["job"]
            E.oblige(st, "the slot is cleared before the worker reports done", z3.BoolVal(isinstance(slot, VNone)), kind="pre")
            E.oblige(st, "the job was called exactly once before reporting done", st.ghost["calls_this_round"].e == 1, kind="pre")
            E.oblige(st, "the worker reports itself", z3.BoolVal(a["worker"].ref == self.w.ref if isinstance(a["worker"], VObj) else False), kind="pre")
            st.ghost["available"] = VBool(True)

    def ensures(self, E, old, st, a, result):
        return [("exits only when handed None", z3.BoolVal(True)), ("on exit it has reported every job it took", st.ghost["available"].e)]

    def loop_inv(self, k, E, old, st, a):
        return [("at the top of the loop the worker is available (slot owned by the pool)", st.ghost["available"].e)]

    def loop_modifies(self, k, E, st, a):
        return [(self.w, "job"), ("ghost", "calls_this_round")]


# ----------------------------------------------------------------------------------------------------------------------
# Pool.close

class _WList(V):
    """list(set of workers): a snapshot enumeration elems[0..n) of exactly the members"""
    __slots__ = ("src", "elems", "n")

    def __init__(self, src):
        self.src = src
        self.elems = fresh("snapshot", z3.ArraySort(IntS, U))
        self.n = src.card

    def iter_spec_v(self, E, st):
        k = z3.Int("k!snap")
        facts = [z3.ForAll([k], z3.Implies(z3.And(0 <= k, k < self.n), z3.Select(self.src.dom, z3.Select(self.elems, k))))]
        return self.n, (lambda j: VOpaque(z3.Select(self.elems, j))), facts


_WS.to_list_value = lambda self, E, st: _WList(self)


@R.spec("builtins.set:empty")
def _empty_ws(E, st, args, kw):
    return [Res(st, _WS(z3.K(U, z3.BoolVal(False)), z3.IntVal(0)))]


@R.spec("threading.current_thread", doc="the calling thread object (opaque)")
def current_thread(E, st, args, kw):
    return [Res(st, VOpaque(z3.Const("current_thread", U)))]


@R.method("VOpaque", "join")
def worker_join(E, st, recv, args, kw):
    c = getattr(E, "cur_contract", None)
    if c is not None and hasattr(c, "on_join"):
        c.on_join(E, st, recv)
    return [Res(st, NONE)]


@R.contract
class PoolClose(_PoolOp):
    name = "Pyro5.svr_threads.Pool.close"
    raises = {}

    def setup(self, E, st):
        return {"self": self.base(E, st)}

    def local_abstraction(self, E, st, name, val):
        return val

    def on_pool_access(self, E, st, pool, field):
        lock = st.heap[pool.ref]["count_lock"]
        if field == "closed" and st.locks.get(lock.ref, 0) == 0 and st.ghost["sections"].e.eq(z3.IntVal(0)) and not st.trace:
            # the unlocked `if not self.closed` guard of close(): a stale False only leads into the locked section (which is
            # idempotent on an already closed pool), True is only ever written inside that section
            return
        return _PoolOp.on_pool_access(self, E, st, pool, field)

    def on_handoff(self, E, st, worker, job):
        idle0 = E.cur_old.heap[self.pool.ref]["idle"]
        E.oblige(st, "close() starts no job: only None is handed out", z3.BoolVal(isinstance(job, VNone)), kind="pre")
        E.oblige(st, "None is written only into the slot of an idle worker (a busy worker's slot may hold a job it has not read yet; busy workers "
                     "are told to exit by notify_done once the pool is closed)", z3.Select(idle0.dom, worker.e), kind="pre")
        self.on_pool_access(E, st, self.pool, "worker-slot")

    def on_join(self, E, st, worker):
        lock = st.heap[self.pool.ref]["count_lock"]
        E.oblige(st, "no lock is held while joining a worker (no deadlock by lock order)", z3.BoolVal(st.locks.get(lock.ref, 0) == 0), kind="lock")
        E.oblige(st, "the closing thread never joins itself", worker.e != z3.Const("current_thread", U), kind="pre")

    def ensures(self, E, old, st, a, result):
        if E.cur_contract is not self:
            return []
        idle0, busy0 = old.heap[self.pool.ref]["idle"], old.heap[self.pool.ref]["busy"]
        h = self.handoffs(st)
        was_closed = old.heap[self.pool.ref]["closed"].e
        return [("the pool is closed afterwards", st.heap[self.pool.ref]["closed"].e),
                ("lock released", z3.BoolVal(all(v == 0 for v in st.locks.values()))), self.sections_ok(st)]

    def loop_inv(self, k, E, old, st, a):
        lock = st.heap[self.pool.ref]["count_lock"]
        return [("loop", z3.BoolVal(True))]


_prev_set = R.specs.get("builtins.set")


@R.spec("builtins.set", doc="set(): an empty set (of workers, in the pool code; of tags, in the name server code)")
def _set(E, st, args, kw):
    if not args and isinstance(getattr(E, "cur_contract", None), _PoolOp):
        return [Res(st, _WS(z3.K(U, z3.BoolVal(False)), z3.IntVal(0)))]
    if _prev_set is not None:
        return _prev_set(E, st, args, kw)
    raise Unsupported("set(...)")


@R.lemma("C18:pool-state-frame", props=("C18",))
def pool_state_frame(E):
    """the pool's bookkeeping (idle, busy, closed) and a worker's job slot are written only by the functions under contract (and the constructors)"""
    from contracts.frames import frame_obligations
    P = "Pyro5/svr_threads.py:Pool."
    frame_obligations(E, "thread pool", {
        "idle": {P + "__init__", P + "process", P + "notify_done", P + "close"},
        "busy": {P + "__init__", P + "process", P + "notify_done", P + "close", P + "worker_died"},
        "closed": {P + "__init__", P + "close"},
        "job": {"Pyro5/svr_threads.py:Worker.__init__", "Pyro5/svr_threads.py:Worker.process", "Pyro5/svr_threads.py:Worker.run"}})
