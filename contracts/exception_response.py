"""Sidecar contract for Daemon._sendExceptionResponse (C07, C05, C12): an error reply is always produced."""
import z3
from pyvc.values import *
from pyvc.engine import Contract, Res
from pyvc.registry import R
from specs.daemon_model import new_daemon, new_call_context, new_annotations, ser_known
from contracts.socketutil import new_connection
from contracts.server_handshake import calls, sends_on, message_of

FLAGS_EXCEPTION = 1


@R.contract
class SendExceptionResponse(Contract):
    name = "Pyro5.server.Daemon._sendExceptionResponse#body"
    real_name = "Pyro5.server.Daemon._sendExceptionResponse"
    props = ("C07", "C05", "C12")
    variants = ("no-extra-annotations", "extra-annotations")
    raises = {"builtins.Exception": "x_any"}
    trusted = ("serializer.dumps of an exception object may raise any Exception; dumps of the fallback PyroError (built from str()s) "
               "may also raise (then nothing can be reported); annotations() is user code",
               "str()/type() of the exception do not raise")

    def setup(self, E, st):
        d = new_daemon(E, st)
        conn = new_connection(E, st)
        st.genv = {"current_context": new_call_context(st)}
        exc = E.new_sym_exc(st, "builtins.BaseException", "reported")
        self.seq, self.sid, self.flags = z3.Int("seq"), z3.Int("serializer_id"), z3.Int("flags")
        st.assume(self.seq >= 0, self.seq < 65536, self.sid >= 0, self.sid < 256, self.flags >= 0, self.flags < 65536)
        ann = NONE if self.variant == "no-extra-annotations" else new_annotations(st, ["caller-supplied"], "extra")
        return {"self": d, "connection": conn, "seq": VInt(self.seq), "serializer_id": VInt(self.sid), "exc_value": exc,
                "tbinfo": VOpaque(z3.Const("tbinfo", U)), "flags": VInt(self.flags), "annotations": ann}

    def ensures(self, E, old, st, a, result):
        conn = a["connection"]
        snd = sends_on(st, conn)
        post = [("exactly one reply is sent", z3.BoolVal(len(snd) == 1 and snd[0][1] == "return"))]
        if snd:
            mobj, margs = message_of(st, snd[0][0])
            post.append(("what is sent is a freshly built protocol message", z3.BoolVal(mobj is not None)))
            if mobj is not None:
                f = margs["flags"].e
                post += [("it is a RESULT message", margs["msgtype"].e == 5),
                         ("it has the exception flag set", (f / FLAGS_EXCEPTION) % 2 == 1),
                         ("it carries the request's sequence number", margs["seq"].e == self.seq),
                         ("it names the request's serializer", margs["serializer_id"].e == self.sid)]
                dumps = [e for e in st.events if e[0] == "dumps"]
                ok = [e for e in dumps if e[3] is margs["payload"]]
                post.append(("its payload is the serialised exception, or the serialised fallback PyroError naming the original", z3.BoolVal(
                    bool(ok) and (ok[0][2] is a["exc_value"] or (isinstance(ok[0][2], VObj) and ok[0][2].cls == "exc" and
                                                                st.get(ok[0][2], "__cls__").qname == "Pyro5.errors.PyroError")))))
                if ok and ok[0][2] is a["exc_value"]:
                    post.append(("the traceback text travels with the exception", z3.BoolVal(st.get(a["exc_value"], "_pyroTraceback") is a["tbinfo"])))
                elif ok:
                    failed = len([t for t in st.trace if "dumps raises" in t])
                    tb = st.get(ok[0][2], "_pyroTraceback")
                    post.append(("the traceback text travels with the fallback; only if the fallback WITH it could not be serialised is it sent without",
                                 z3.BoolVal(tb is a["tbinfo"] or (failed >= 2 and isinstance(tb, VNone)))))
                prov = st.get(margs["annotations"], "prov", frozenset(["?"])) if isinstance(margs["annotations"], VObj) else frozenset(["?"])
                post.append(("C12: annotations = caller-supplied + daemon annotations only (never the thread's response annotations)",
                             z3.BoolVal(prov <= frozenset(["empty", "daemon.annotations()", "caller-supplied"]))))
        return post

    def x_any(self, E, old, st, a, exc):
        conn = a["connection"]
        snd = sends_on(st, conn)
        vc = st.get(exc, "__cls__")
        from_send = bool(snd) and snd[0][1] == "raise"
        ndumps_failed = len([t for t in st.trace if "dumps raises" in t])
        early = [t for t in st.trace if "unknown serializer id" in t or "annotations() raises" in t or "SendingMessage" in t or "__init__@" in t]
        if ndumps_failed >= 3:
            early.append("the exception, the fallback PyroError and the fallback without traceback could all not be serialised")
        return [("at most one send attempted", z3.BoolVal(len(snd) <= 1)),
                ("fails only if: unknown serializer id, not even the bare fallback could be serialised, annotations() raised, the reply could not be built, or the send failed",
                 z3.BoolVal(from_send or bool(early))),
                ("a failed send surfaces as a communication error", z3.Implies(z3.BoolVal(from_send), z3.BoolVal(
                    vc.qname in ("Pyro5.errors.ConnectionClosedError", "Pyro5.errors.TimeoutError"))))]
