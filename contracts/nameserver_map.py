"""Sidecar contracts for the NameServer operations as a faithful map (C14): count, lookup, register, set_metadata, remove(name)
against the abstract storage state sigma = (dom, uri, meta) of specs/storage_model.py."""
import z3
from pyvc.values import *
from pyvc.engine import Contract, Res, Unsupported
from pyvc.registry import R
from specs.storage_model import new_storage, _Meta, MetaS
import contracts.nameserver_locks as L

NS_NAME = z3.StringVal("Pyro.NameServer")
uri_valid = z3.Function("uri_text_is_valid", StrS, BoolS)
uri_of = z3.Function("uri_object_of_text", StrS, U)
tags_of = z3.Function("tag_set_of", U, MetaS)
iterable = z3.Function("is_iterable", U, BoolS)


def sigma(st, ns):
    s = st.get(ns, "storage")
    return st.get(s, "dom"), st.get(s, "uri"), st.get(s, "meta"), st.get(s, "card")


def unchanged(old, st, ns):
    d0, u0, m0, c0 = sigma(old, ns)
    d, u, m, c = sigma(st, ns)
    return z3.And(d == d0, u == u0, m == m0, c == c0)


class _MapOp(Contract):
    props = ("C14",)
    raises = {"builtins.Exception": "x_any"}
    log_calls = False
    trusted = ("the storage obeys the interface contract Sigma (specs/storage_model.py); URI(text) parses or raises (C19); set(metadata) is the tag set of an iterable",)

    def base(self, E, st):
        self.ns = L.new_nameserver(E, st)
        st.ghost["sections"] = VInt(0)
        st.ghost["accesses"] = VInt(0)
        return self.ns

    def on_lock(self, E, st, cm, phase):
        pass

    def on_access(self, E, st, obj, op):
        pass

    def cls_is(self, st, exc, q):
        vc = st.get(exc, "__cls__")
        return vc.qname == q


@R.spec("Pyro5.core.URI", doc="URI(text): a URI object determined by the text, or PyroError when the text is not a valid URI (C19)")
def uri_ctor(E, st, args, kw):
    t = args[0]
    if not isinstance(t, VStr):
        return L.uri_ctor(E, st, args, kw)
    out = []
    for s2, ok in E.branch(st, uri_valid(t.e)):
        if ok:
            out.append(Res(s2, VOpaque(uri_of(t.e))))
        else:
            out.append(E.raise_(s2, "Pyro5.errors.PyroError"))
    return out


_prev_set = R.specs.get("builtins.set")


@R.spec("builtins.set")
def b_set(E, st, args, kw):
    if isinstance(getattr(E, "cur_contract", None), _MapOp):
        if not args:
            return [Res(st, _Meta(z3.K(StrS, z3.BoolVal(False))))]
        v = args[0]
        if isinstance(v, _Meta):
            return [Res(st, v)]
        if isinstance(v, VOpaque):
            out = []
            for s2, ok in E.branch(st, iterable(v.e)):
                out.append(Res(s2, _Meta(tags_of(v.e))) if ok else E.raise_(s2, "builtins.TypeError"))
            return out
        if isinstance(v, (VList, VTuple)) and not v.items:
            return [Res(st, _Meta(z3.K(StrS, z3.BoolVal(False))))]
    return _prev_set(E, st, args, kw)


_prev_iter = R.specs.get("builtins.iter")


@R.spec("builtins.iter")
def b_iter(E, st, args, kw):
    v = args[0]
    if isinstance(getattr(E, "cur_contract", None), _MapOp) and isinstance(v, VOpaque):
        out = []
        for s2, ok in E.branch(st, iterable(v.e)):
            out.append(Res(s2, VOpaque(fresh("iterator", U))) if ok else E.raise_(s2, "builtins.TypeError"))
        return out
    return _prev_iter(E, st, args, kw)


@R.contract
class MapCount(_MapOp):
    name = "Pyro5.nameserver.NameServer.count#map"
    real_name = "Pyro5.nameserver.NameServer.count"

    def setup(self, E, st):
        return {"self": self.base(E, st)}

    def ensures(self, E, old, st, a, result):
        d, u, m, c = sigma(old, self.ns)
        return [("count is the number of registered names", result.e == c), ("nothing changes", unchanged(old, st, self.ns))]

    def x_any(self, E, old, st, a, exc):
        return [("count does not fail", z3.BoolVal(False))]


@R.contract
class MapLookup(_MapOp):
    name = "Pyro5.nameserver.NameServer.lookup#map"
    real_name = "Pyro5.nameserver.NameServer.lookup"

    def setup(self, E, st):
        self.name_ = VStr(z3.Const("name", StrS))
        return {"self": self.base(E, st), "name": self.name_, "return_metadata": VBool(z3.Const("return_metadata", BoolS))}

    def ensures(self, E, old, st, a, result):
        d, u, m, c = sigma(old, self.ns)
        n = self.name_.e
        post = [("only a registered name is found", z3.Select(d, n)), ("lookup changes nothing", unchanged(old, st, self.ns))]
        if isinstance(result, VTuple):
            post.append(("the URI stored under exactly that name is returned (with its tag set)", z3.And(
                result.items[0].e == uri_of(z3.Select(u, n)), a["return_metadata"].e)))
        elif isinstance(result, VOpaque):
            post.append(("the URI stored under exactly that name is returned", z3.And(result.e == uri_of(z3.Select(u, n)), z3.Not(a["return_metadata"].e))))
        else:
            post.append(("returns a URI", z3.BoolVal(False)))
        return post

    def x_any(self, E, old, st, a, exc):
        d, u, m, c = sigma(old, self.ns)
        n = self.name_.e
        return [("NamingError exactly for an unknown name (or a stored text that is no URI)", z3.BoolVal(self.cls_is(st, exc, "Pyro5.errors.NamingError") or self.cls_is(st, exc, "Pyro5.errors.PyroError"))),
                ("an unknown name gives NamingError", z3.Implies(z3.BoolVal(self.cls_is(st, exc, "Pyro5.errors.NamingError")), z3.Not(z3.Select(d, n)))),
                ("a failed lookup changes nothing", unchanged(old, st, self.ns))]


@R.contract
class MapRegister(_MapOp):
    name = "Pyro5.nameserver.NameServer.register#map"
    real_name = "Pyro5.nameserver.NameServer.register"

    def setup(self, E, st):
        self.name_, self.uri = VStr(z3.Const("name", StrS)), VStr(z3.Const("uri", StrS))
        self.safe = VBool(z3.Const("safe", BoolS))
        self.md = VOpaque(z3.Const("metadata", U))
        return {"self": self.base(E, st), "name": self.name_, "uri": self.uri, "safe": self.safe, "metadata": self.md}

    def ensures(self, E, old, st, a, result):
        d0, u0, m0, c0 = sigma(old, self.ns)
        d, u, m, c = sigma(st, self.ns)
        n = self.name_.e
        x = z3.Const("x!other", StrS)
        has_md = z3.And(self.md.e != U_NONE, truthy(self.md.e))
        return [("a safe registration of an existing name never succeeds", z3.Not(z3.And(self.safe.e, z3.Select(d0, n)))),
                ("only valid URI texts are stored", uri_valid(self.uri.e)),
                ("afterwards the name maps to exactly the given URI text", z3.And(z3.Select(d, n), z3.Select(u, n) == self.uri.e)),
                ("... and to exactly the given tags (none given: the empty set)", z3.Select(m, n) == z3.If(has_md, tags_of(self.md.e), z3.K(StrS, z3.BoolVal(False)))),
                ("every other name is untouched", z3.ForAll([x], z3.Implies(x != n, z3.And(z3.Select(d, x) == z3.Select(d0, x), z3.Select(u, x) == z3.Select(u0, x),
                                                                                         z3.Select(m, x) == z3.Select(m0, x))))),
                ("the count grows by one exactly for a new name", c == z3.If(z3.Select(d0, n), c0, c0 + 1))]

    def x_any(self, E, old, st, a, exc):
        d0, u0, m0, c0 = sigma(old, self.ns)
        n = self.name_.e
        return [("a refused registration changes nothing", unchanged(old, st, self.ns)),
                ("NamingError means: safe registration of an existing name", z3.Implies(z3.BoolVal(self.cls_is(st, exc, "Pyro5.errors.NamingError")), z3.And(self.safe.e, z3.Select(d0, n))))]


@R.contract
class MapSetMetadata(_MapOp):
    name = "Pyro5.nameserver.NameServer.set_metadata#map"
    real_name = "Pyro5.nameserver.NameServer.set_metadata"

    def setup(self, E, st):
        self.name_ = VStr(z3.Const("name", StrS))
        self.md = VOpaque(z3.Const("metadata", U))
        return {"self": self.base(E, st), "name": self.name_, "metadata": self.md}

    def ensures(self, E, old, st, a, result):
        d0, u0, m0, c0 = sigma(old, self.ns)
        d, u, m, c = sigma(st, self.ns)
        n = self.name_.e
        x = z3.Const("x!other", StrS)
        has_md = z3.And(self.md.e != U_NONE, truthy(self.md.e))
        return [("only an existing registration can be updated", z3.Select(d0, n)),
                ("the URI is kept, the tags are replaced", z3.And(z3.Select(d, n), z3.Select(u, n) == z3.Select(u0, n),
                                                                 z3.Select(m, n) == z3.If(has_md, tags_of(self.md.e), z3.K(StrS, z3.BoolVal(False))))),
                ("every other name is untouched", z3.ForAll([x], z3.Implies(x != n, z3.And(z3.Select(d, x) == z3.Select(d0, x), z3.Select(u, x) == z3.Select(u0, x),
                                                                                         z3.Select(m, x) == z3.Select(m0, x))))),
                ("the count is unchanged", c == c0)]

    def x_any(self, E, old, st, a, exc):
        d0, u0, m0, c0 = sigma(old, self.ns)
        return [("a failed update changes nothing", unchanged(old, st, self.ns)),
                ("NamingError means: unknown name", z3.Implies(z3.BoolVal(self.cls_is(st, exc, "Pyro5.errors.NamingError")), z3.Not(z3.Select(d0, self.name_.e))))]


@R.contract
class MapRemoveName(_MapOp):
    name = "Pyro5.nameserver.NameServer.remove#map"
    real_name = "Pyro5.nameserver.NameServer.remove"
    trusted = _MapOp.trusted + ("verified for removal by name (prefix=None, regex=None); removal by prefix / regex and list / yplookup are covered by the bounded native harness",)

    def setup(self, E, st):
        self.name_ = VStr(z3.Const("name", StrS))
        return {"self": self.base(E, st), "name": self.name_, "prefix": NONE, "regex": NONE}

    def ensures(self, E, old, st, a, result):
        d0, u0, m0, c0 = sigma(old, self.ns)
        d, u, m, c = sigma(st, self.ns)
        n = self.name_.e
        x = z3.Const("x!other", StrS)
        removable = z3.And(z3.Select(d0, n), n != NS_NAME)       # (every name, the empty string included: a simple map)
        return [("returns the number of entries really removed (1 or 0)", result.e == z3.If(removable, 1, 0)),
                ("a removable name is gone afterwards, the count follows", z3.Implies(removable, z3.And(z3.Not(z3.Select(d, n)), c == c0 - 1))),
                ("otherwise nothing changes (unknown name, the name server's own entry)", z3.Implies(z3.Not(removable), unchanged(old, st, self.ns))),
                ("the name server's own entry is never removed", z3.Implies(z3.Select(d0, NS_NAME), z3.Select(d, NS_NAME))),
                ("every other name is untouched", z3.ForAll([x], z3.Implies(x != n, z3.Select(d, x) == z3.Select(d0, x))))]

    def x_any(self, E, old, st, a, exc):
        return [("removal by name does not fail", z3.BoolVal(False))]
