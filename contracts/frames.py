"""Syntactic frame lemmas (checked on the AST of the current tree on every run): a piece of state that the contracts of one property talk about is rebound / mutated /
passed on only by the functions that are under contract for it (plus its constructor).  A per-function contract says nothing about what OTHER functions do to the state
between two calls; these lemmas close that gap for the named attributes.  Pure reads (len(), `in`, .get(), [key], iteration, truth tests) are allowed anywhere."""
import ast
import glob
import os
import z3
from pyvc.engine import State

READ_METHODS = {"get", "keys", "values", "items", "copy", "__contains__", "__getitem__", "__len__", "__iter__", "issubset", "issuperset", "union", "intersection", "difference"}
READ_CALLS = ("len", "list", "sorted", "bool", "iter", "dict", "set", "tuple", "frozenset", "any", "all", "sum", "repr", "str", "id", "isinstance")


def classify(node, parents):
    """'read' | 'write' for one mention (an ast.Attribute whose attr is one of the tracked names)"""
    if isinstance(node.ctx, (ast.Store, ast.Del)):
        return "write"
    par = parents.get(node)
    if isinstance(par, ast.Subscript) and par.value is node:
        return "write" if isinstance(par.ctx, (ast.Store, ast.Del)) else "read"
    if isinstance(par, ast.Attribute) and par.value is node:
        gp = parents.get(par)
        if isinstance(gp, ast.Call) and gp.func is par:
            return "read" if par.attr in READ_METHODS else "write"
        return "write"
    if isinstance(par, ast.Compare):
        return "read"
    if isinstance(par, ast.Call) and isinstance(par.func, ast.Name) and par.func.id in READ_CALLS and node in par.args:
        return "read"
    if isinstance(par, (ast.For, ast.comprehension)) and par.iter is node:
        return "read"
    if isinstance(par, (ast.If, ast.While, ast.BoolOp, ast.UnaryOp, ast.IfExp, ast.Assert)):
        return "read"
    if isinstance(par, ast.BinOp):
        return "read"       # e.g. len-like arithmetic on set unions: a new value is built, the state itself is not changed
    return "write"          # anything else (passed on, returned, aliased): the state escapes


def scan(names):
    """{name: {site: kind}} over Pyro5/**/*.py of the tree under verification; site = 'Pyro5/x.py:Class.func'"""
    repo = os.environ.get("PYVC_REPO", "/repo")
    found = {k: {} for k in names}
    for path in sorted(glob.glob(os.path.join(repo, "Pyro5", "**", "*.py"), recursive=True)):
        rel = os.path.relpath(path, repo)
        tree = ast.parse(open(path).read())
        parents = {}
        for n in ast.walk(tree):
            for ch in ast.iter_child_nodes(n):
                parents[ch] = n

        def walk(node, qual):
            for ch in ast.iter_child_nodes(node):
                if isinstance(ch, (ast.FunctionDef, ast.AsyncFunctionDef, ast.ClassDef)):
                    walk(ch, (qual + "." if qual else "") + ch.name)
                    continue
                if isinstance(ch, ast.Attribute) and ch.attr in names:
                    site = "%s:%s" % (rel, qual or "<module>")
                    k = classify(ch, parents)
                    if k == "write" or site not in found[ch.attr]:
                        found[ch.attr][site] = k
                if isinstance(ch, ast.Constant) and isinstance(ch.value, str) and ch.value in names:
                    found[ch.value]["%s:%s (by name, as a string)" % (rel, qual or "<module>")] = "write"
                walk(ch, qual)
        walk(tree, "")
    return found


def callers_of(method):
    """sites (file:Qual.name) of the functions of the package that call something named `method` (x.method(...) or method(...))"""
    repo = os.environ.get("PYVC_REPO", "/repo")
    out = set()
    for path in sorted(glob.glob(os.path.join(repo, "Pyro5", "**", "*.py"), recursive=True)):
        rel = os.path.relpath(path, repo)
        tree = ast.parse(open(path).read())

        def walk(node, qual):
            for ch in ast.iter_child_nodes(node):
                if isinstance(ch, (ast.FunctionDef, ast.AsyncFunctionDef, ast.ClassDef)):
                    walk(ch, (qual + "." if qual else "") + ch.name)
                    continue
                if isinstance(ch, ast.Call):
                    f = ch.func
                    if (isinstance(f, ast.Attribute) and f.attr == method) or (isinstance(f, ast.Name) and f.id == method):
                        out.add("%s:%s" % (rel, qual or "<module>"))
                walk(ch, qual)
        walk(tree, "")
    return out


def helpers_of(extra, allowed):
    """writer sites outside `allowed` that are helpers of allowed writers: every call of the helper in the package sits inside an allowed writer (or another such
    helper) - its effect is then verified as part of those callers (the engine executes uncontracted helpers in place)"""
    ok = set()
    changed = True
    while changed:
        changed = False
        for site in extra:
            if site in ok or "(by name" in site:
                continue
            method = site.split(":")[1].split(".")[-1]
            callers = callers_of(method)
            if callers and all(c in allowed or c in ok or c == site for c in callers):
                ok.add(site)
                changed = True
    return ok


def frame_obligations(E, what, writers):
    """writers: {attribute name: set of allowed writer sites}"""
    found = scan(set(writers))
    st = State()
    for attr, sites in writers.items():
        wr = {s for s, k in found[attr].items() if k == "write"}
        extra = set(wr - set(sites))
        extra = sorted(extra - helpers_of(extra, set(sites)))
        E.oblige(st, "%s: `%s` is rebound / mutated / passed on only by %s%s" % (what, attr, ", ".join(sorted(x.split(":")[1] for x in sites)),
                                                                                 (" - also written in: " + ", ".join(extra)) if extra else ""),
                 z3.BoolVal(not extra), kind="lemma")
        E.oblige(st, "%s: `%s` still exists in the tree" % (what, attr), z3.BoolVal(bool(found[attr])), kind="lemma")
