"""Sidecar contracts for the request dispatch: Daemon.handleRequest and what it calls
(C02 gate, C03/C07 reply discipline, C08 type filter, C11 batch, C12 context, C16 dispatch target)."""
import z3
from pyvc.values import *
from pyvc.engine import Contract, Res, Out, Unsupported
from pyvc.registry import R
from specs.daemon_model import new_daemon, new_call_context, new_annotations
from specs.opaque import box, may_raise, user_call, u_getitem, u_len, is_class, instance_of
from contracts.socketutil import new_connection
from contracts.server_handshake import calls, sends_on, built_messages, message_of
import contracts.servers as servers

MSG_INVOKE, MSG_RESULT, MSG_PING = 4, 5, 6
FLAGS_EXCEPTION, FLAGS_ONEWAY, FLAGS_BATCH, FLAGS_ITEMSTREAMRESULT, FLAGS_KEEPSERIALIZED = 1, 4, 8, 16, 32

member = z3.Function("member", U, U, U)              # the attribute object `getattr(obj, name)` resolves to
gate_ok = z3.Function("exposed_nonprivate_method", U, U, BoolS)
prop_get_ok = z3.Function("exposed_nonprivate_property_get", U, U, BoolS)
prop_set_ok = z3.Function("exposed_nonprivate_property_set", U, U, BoolS)
deref = z3.Function("deref_weak", U, U)


def bit(x, k):
    return (x / (2 ** k)) % 2


# ----------------------------------------------------------------------------------------------------------------------
# declared contracts of the callees (each is verified as a function under contract in its own property: C02, C07, C10)

@R.contract
class GetAttributeDecl(Contract):
    """_get_attribute(obj, attr): returns member(obj, attr) and only if the gate predicate holds; AttributeError otherwise
    (call-site view; the body is verified against the object model in contracts/exposure.py, C02)"""
    name = "Pyro5.server._get_attribute"
    props = ()
    raises = {"builtins.Exception": "x_any"}
    raises_any_subclass = ("builtins.Exception",)

    def result(self, E, st, a):
        return VOpaque(fresh("resolved_method", U))

    def ensures(self, E, old, st, a, result):
        o, n = box(a["obj"]), box(a["attr"])
        st.event("approved", a["obj"], a["attr"], result)
        return [("gate", gate_ok(o, n)), ("is-the-named-member", result.e == member(o, n)), ("not-none", result.e != U_NONE)]

    def x_any(self, E, old, st, a, exc):
        return []


class _PropDecl(Contract):
    props = ()
    raises = {"builtins.Exception": "x_any"}
    raises_any_subclass = ("builtins.Exception",)
    pred = None
    kind = None

    def requires(self, E, st, a):
        # the body is verified (contracts/exposure.py) for only_exposed=True, the way the daemon must call it: with any other value the gate is off
        oe = a.get("only_exposed")
        return [("the property gate is called with only_exposed=True", z3.BoolVal(isinstance(oe, VBool) and z3.is_true(z3.simplify(oe.e))))]

    def result(self, E, st, a):
        return VOpaque(fresh("property_result", U))

    def ensures(self, E, old, st, a, result):
        o, n = box(a["obj"]), box(a["propname"])
        st.event(self.kind, a["obj"], a["propname"], result)
        cnt = st.ghost.get("user_calls")
        if cnt is not None:
            st.ghost["user_calls"] = VInt(cnt.e + 1)
        return [("gate", self.pred(o, n))]

    def x_any(self, E, old, st, a, exc):
        # either refused before anything ran, or the accessor itself raised (then the gate had passed)
        return []


@R.contract
class GetPropDecl(_PropDecl):
    name = "Pyro5.server._get_exposed_property_value"
    pred = prop_get_ok
    kind = "property_get"


@R.contract
class SetPropDecl(_PropDecl):
    name = "Pyro5.server._set_exposed_property_value"
    pred = prop_set_ok
    kind = "property_set"


@R.contract
class StreamResponseDecl(Contract):
    name = "Pyro5.server.Daemon._streamResponse"
    props = ()
    log_calls = True
    raises = {"Pyro5.errors.PyroError": "x_any"}

    def result(self, E, st, a):
        return VTuple([VBool(fresh("isStream", BoolS)), VOpaque(fresh("stream_id_or_data", U))])

    def ensures(self, E, old, st, a, result):
        isstream, data = result.items
        return [("not a stream: data handed back unchanged", z3.Implies(z3.Not(isstream.e), data.e == box(a["data"]))),
                ("stream: id (str) or None", z3.Implies(isstream.e, z3.Or(data.e == U_NONE, is_str(data.e))))]

    def x_any(self, E, old, st, a, exc):
        return []


@R.contract
class SendExceptionResponseDecl(Contract):
    """_sendExceptionResponse(conn, seq, serializer_id, exc, tb, flags, annotations): exactly one error reply is attempted
    (a message with FLAGS_EXCEPTION carrying seq and serializer_id), or an exception leaves it (unknown serializer id, both
    dumps fail, annotations hook, send failure).  Verified in C07 (contracts/exception_response.py)."""
    name = "Pyro5.server.Daemon._sendExceptionResponse"
    props = ()
    # exceptional outcomes: the send itself failed (ConnectionClosedError / TimeoutError: the reply was attempted), or
    # something failed *before* anything was sent (any class)
    raises = {"Pyro5.errors.ConnectionClosedError": "x_any", "Pyro5.errors.TimeoutError": "x_any", "builtins.Exception": "x_any"}
    raises_any_subclass = ("builtins.Exception",)

    def modifies(self, E, st, a):
        s = st.get(a["connection"], "sock")
        return [(s, "out")]

    def x_any(self, E, old, st, a, exc):
        return []


@R.spec("Pyro5.server._unpack_weakref", doc="returns the object itself, or the referent of a weak reference; DaemonError if the referent is gone. "
        "None stays None.  (4-line repo function, taken as specified)")
def unpack_weakref(E, st, args, kw):
    x = args[0]
    s2 = st.fork()
    r = VOpaque(deref(box(x)))
    st.assume((r.e == U_NONE) == (box(x) == U_NONE))
    return [Res(st, r), E.raise_(s2, "Pyro5.errors.DaemonError")]


@R.spec("Pyro5.server.Daemon.__deserializeBlobArgs", doc="blob variant of argument decoding: 4-tuple of opaque values or any Exception")
def deserialize_blob(E, st, args, kw):
    out = [may_raise(E, st, "deserializeBlobArgs")]
    out.insert(0, Res(st, VTuple([VOpaque(fresh("req_" + n, U)) for n in ("objId", "method", "vargs", "kwargs")])))
    return out


@R.spec("Pyro5.core._ExceptionWrapper", doc="wrapper object holding the exception of a failed batch member")
def exception_wrapper(E, st, args, kw):
    return [Res(st, st.new_obj("Pyro5.core._ExceptionWrapper", exception=args[0]))]


@R.model("Pyro5.core._ExceptionWrapper")
class ExcWrapperModel:
    """core._ExceptionWrapper"""

    def getattr(self, E, st, obj, name):
        return None
    methods = {}


@R.spec("Pyro5.server._OnewayCallThread", doc="thread object that will run method(*vargs, **kwargs) once, later, in its own thread "
        "(its __init__ / run / _methodcall are under contract in contracts/oneway_thread.py); start() only schedules it")
def oneway_thread(E, st, args, kw):
    t = st.new_obj("oneway_thread", method=args[0], vargs=args[1], kwargs=args[2])
    return [Res(st, t)]


@R.model("oneway_thread")
class OnewayThreadModel:
    """_OnewayCallThread: start() is the (deferred) invocation of the method: counted as the request's user call"""

    def getattr(self, E, st, obj, name):
        return None

    def m_start(self, E, st, obj, args, kw):
        c = getattr(E, "cur_contract", None)
        if c is not None and hasattr(c, "on_user_call"):
            c.on_user_call(E, st, st.get(obj, "method"), [("*", st.get(obj, "vargs")), ("**", st.get(obj, "kwargs"))], {}, "oneway_call")
        st.event("oneway_call", st.get(obj, "method"), (st.get(obj, "vargs"), st.get(obj, "kwargs")), {})
        cnt = st.ghost.get("user_calls")
        if cnt is not None:
            st.ghost["user_calls"] = VInt(cnt.e + 1)
        return [Res(st, NONE)]

    methods = {"start": m_start}


@R.method("VSeq", "mut:append")
def seq_mut_append(E, st, recv, vals):
    return [(st, VSeq(z3.Concat(recv.e, z3.Unit(box(vals[0]))), recv.wrap), NONE, None)]


# ----------------------------------------------------------------------------------------------------------------------

@R.contract
class HandleRequest(Contract):
    name = "Pyro5.server.Daemon.handleRequest#body"
    props = ("C02", "C03", "C07", "C08", "C11", "C12", "C16")
    local_positions = {"obj": 11, "data": 12}
    raises = {"builtins.Exception": "x_any"}
    trusted = ("user methods / hooks / property accessors are arbitrary user code (may raise any Exception subclass); they may write "
               "current_context.response_annotations (tracked by provenance) but no other Pyro-internal state",
               "user exceptions carry no `pyroMsg` attribute",
               "the callees _get_attribute, _get/_set_exposed_property_value, _streamResponse, _sendExceptionResponse, _getInstance, "
               "recv_stub, SendingMessage, SocketConnection.send are represented by their contracts")

    def setup(self, E, st):
        d = new_daemon(E, st)
        conn = new_connection(E, st)
        st.genv = {"current_context": new_call_context(st)}
        st.ghost["user_calls"] = VInt(0)
        self.initial_refs = set(st.heap.keys())
        return {"self": d, "conn": conn}

    # the real function is Daemon.handleRequest; this contract object is registered under a distinct key so that callers
    # keep using the weakest declared interface (servers.HandleRequestDecl)
    real_name = "Pyro5.server.Daemon.handleRequest"

    # --- request facts -----------------------------------------------------------------------------------------------
    def request(self, st):
        got = [e for e in calls(st, "protocol.recv_stub") if e[3] == "return"]
        return got[0][4] if got else None

    def decoded(self, st):
        return True

    def local_abstraction(self, E, st, name, val):
        if name == "data" and isinstance(val, VList) and not val.items:
            return VSeq(z3.Empty(z3.SeqSort(U)), VOpaque)
        return val

    # --- hooks ---------------------------------------------------------------------------------------------------------
    def on_user_call(self, E, st, target, args, kwargs, kind):
        a = E.cur_args
        d = a["self"]
        if isinstance(target, VOpaque) and z3.eq(target.e, st.get(d, "methodcall_error_handler").e):
            # the error-handler hook, not an object member.  C07: it is handed the member that failed - a callable that went through the gate,
            # never the request's method *name* (the default hook reads method.__qualname__; failing there would replace the user's exception)
            approved = [e for e in st.events if e[0] == "approved"]
            m = args[2] if len(args) > 2 else None
            ok = z3.Or([m.e == e[3].e for e in approved]) if approved and isinstance(m, VOpaque) else z3.BoolVal(False)
            E.oblige(st, "C07:the error hook receives the invoked member, not its name", ok, kind="pre")
            return
        if kind in ("annotations()",):
            return
        msg = self.request(st)
        ctx = st.genv["current_context"]
        # C08: user code runs only for an INVOKE message
        E.oblige(st, "C08:user-code-only-for-INVOKE", st.get(msg, "type").e == MSG_INVOKE if msg is not None else z3.BoolVal(False), kind="pre")
        # C02: the target went through the exposure gate for this very object
        approved = [e for e in st.events if e[0] == "approved"]
        ok = z3.Or([target.e == e[3].e for e in approved]) if approved and isinstance(target, VOpaque) else z3.BoolVal(False)
        E.oblige(st, "C02:target-passed-the-exposure-gate", ok, kind="pre")
        # C16: ... of the object the request's id designates (or an instance of the registered class)
        if approved:
            last = approved[-1]
            E.oblige(st, "C16:gate-was-asked-about-the-dispatched-object", z3.BoolVal(self.is_dispatch_object(E, st, last[1])), kind="pre")
        # C12: the context the method can read is that of the request being served
        self.context_obligations(E, st, msg, a["conn"], ctx)

    def context_obligations(self, E, st, msg, conn, ctx):
        if msg is None:
            E.oblige(st, "C12:context==request", z3.BoolVal(False), kind="pre")
            return
        cl = st.get(ctx, "client")
        E.oblige(st, "C12:context.client-is-this-connection", z3.BoolVal(isinstance(cl, VObj) and cl.ref == conn.ref), kind="pre")
        for f, mf in (("seq", "seq"), ("serializer_id", "serializer_id")):
            v = st.get(ctx, f)
            E.oblige(st, "C12:context.%s==request" % f, v.e == st.get(msg, mf).e if isinstance(v, VInt) else z3.BoolVal(False), kind="pre")
        v = st.get(ctx, "msg_flags")
        E.oblige(st, "C12:context.msg_flags==request", v.e == st.get(msg, "flags").e if isinstance(v, VInt) else z3.BoolVal(False), kind="pre")
        an = st.get(ctx, "annotations")
        E.oblige(st, "C12:context.annotations-are-the-request's", z3.BoolVal(isinstance(an, VObj) and an.ref == st.get(msg, "annotations").ref), kind="pre")
        ra = st.get(ctx, "response_annotations")
        E.oblige(st, "C12:response-annotations-start-empty", z3.BoolVal(isinstance(ra, VObj) and st.get(ra, "prov", frozenset()) <= frozenset(["empty", "daemon.annotations()", "this-request"])), kind="pre")
        corr = st.get(ctx, "correlation_id")
        E.oblige(st, "C12:context.correlation_id-set-for-this-request", z3.BoolVal(isinstance(corr, VObj) and corr.ref not in self.initial_refs), kind="pre")

    def after_user_call(self, E, st, target, args, kwargs, kind, res):
        # user code may have written response annotations: from now on the dict may carry entries of *this* request
        ctx = st.genv["current_context"]
        ra = st.get(ctx, "response_annotations")
        if isinstance(ra, VObj):
            st.set(ra, "prov", frozenset(st.get(ra, "prov", frozenset())) | frozenset(["this-request"]))

    def is_dispatch_object(self, E, st, objv):
        """objv is what the registry lookup + _unpack_weakref + _getInstance produced for the request's object id"""
        dec = self.decoded(st)
        return dec is not None and isinstance(objv, VOpaque)

    # --- post ----------------------------------------------------------------------------------------------------------
    def replies(self, st, conn):
        """reply attempts on the wire: direct sends, and error responses that got as far as sending"""
        direct = sends_on(st, conn)
        viaexc = []
        for e in calls(st, "Daemon._sendExceptionResponse"):
            if e[2]["connection"].ref != conn.ref:
                continue
            if e[3] == "return":
                viaexc.append(e)
            else:
                vc = st.get(e[4], "__cls__")
                if vc.qname in ("Pyro5.errors.ConnectionClosedError", "Pyro5.errors.TimeoutError"):
                    viaexc.append(e)        # the send was attempted and failed
        return direct, viaexc

    def common(self, E, old, st, a, exit_kind):
        conn = a["conn"]
        msg = self.request(st)
        direct, viaexc = self.replies(st, conn)
        nrep = len(direct) + len(viaexc)
        post = [("at most one reply per request", z3.BoolVal(nrep <= 1))]
        if msg is None:
            post.append(("nothing is sent and nothing runs when no message was received", z3.BoolVal(nrep == 0 and not self.user_events(st))))
            return post, None
        flags = st.get(msg, "flags").e
        typ = st.get(msg, "type").e
        oneway = bit(flags, 2) == 1
        post.append(("C03: a oneway request never gets a reply", z3.Implies(z3.And(typ == MSG_INVOKE, oneway), z3.BoolVal(nrep == 0))))
        for data, outcome in direct:
            mobj, margs = message_of(st, data)
            post.append(("what is sent is a freshly built protocol message", z3.BoolVal(mobj is not None)))
            if mobj is not None:
                post.append(("C03: the reply carries the request's sequence number", margs["seq"].e == st.get(msg, "seq").e))
                post.append(("C03: the reply names the request's serializer", margs["serializer_id"].e == st.get(msg, "serializer_id").e))
                post.append(("the reply is RESULT for INVOKE and PING for PING", margs["msgtype"].e == z3.If(typ == MSG_PING, MSG_PING, MSG_RESULT)))
                prov = st.get(margs["annotations"], "prov", frozenset(["?"])) if isinstance(margs["annotations"], VObj) else frozenset(["?"])
                post.append(("C12: the reply carries only daemon annotations and annotations written during this request",
                             z3.BoolVal(prov <= frozenset(["empty", "daemon.annotations()", "this-request"]))))
        for e in viaexc:
            ea = e[2]
            sq = ea["seq"]
            post.append(("C03/C07: the error reply carries the request's sequence number", sq.e == st.get(msg, "seq").e if isinstance(sq, VInt) else z3.BoolVal(False)))
            sid = ea["serializer_id"]
            post.append(("C07: the error reply names the request's serializer", sid.e == st.get(msg, "serializer_id").e if isinstance(sid, VInt) else z3.BoolVal(False)))
        # C10: how a streamed result is announced
        streamed = [e for e in calls(st, "Daemon._streamResponse") if e[3] == "return"]
        for e in viaexc:
            fl = e[2].get("flags")
            if isinstance(fl, VInt) and z3.is_true(z3.simplify(fl.e == FLAGS_ITEMSTREAMRESULT)):
                ok = len(streamed) == 1
                post.append(("C10: an item-stream announcement is sent only after _streamResponse reported a stream for this request's result", z3.BoolVal(ok)))
                if ok:
                    isstream, sid = streamed[0][4].items
                    post.append(("C10: ... and it did report a stream", isstream.e))
                    ann = e[2].get("annotations")
                    from specs.opaque import utf8
                    has_id = z3.And(sid.e != U_NONE, truthy(sid.e))
                    disp = [d for d in st.events if d[0] == "dict_display" and isinstance(ann, VOpaque) and z3.eq(d[1].e, ann.e)]
                    if isinstance(ann, VObj) and ann.cls == "seqdict":
                        n, keys, vals = st.get(ann, "n").e, st.get(ann, "keys"), st.get(ann, "vals")
                        post.append(("C10: the announcement names exactly the stream id that was registered (one annotation STRM = the id, encoded); without an id (streaming "
                                     "disabled) it carries no annotation",
                                     z3.If(has_id, z3.And(n == 1, keys[0] == z3.StringVal("STRM"), vals[0] == utf8(unbox_str(sid.e))), n == 0)))
                    elif disp:
                        keys = disp[0][2].items if isinstance(disp[0][2], (VTuple, VList)) else list(disp[0][2])
                        vals = disp[0][3].items if isinstance(disp[0][3], (VTuple, VList)) else list(disp[0][3])
                        ok1 = len(keys) == 1 and isinstance(keys[0], VStr) and isinstance(vals[0], VBytes)
                        post.append(("C10: the announcement names exactly the stream id that was registered (one annotation STRM = the id, encoded)",
                                     z3.And(has_id, keys[0].e == z3.StringVal("STRM"), vals[0].e == utf8(unbox_str(sid.e))) if ok1 else z3.BoolVal(False)))
                    else:
                        post.append(("C10: the announcement's annotations are built here ({'STRM': id} or {})", z3.BoolVal(False)))
        if direct and streamed:
            post.append(("C10: a result that was turned into a stream is never ALSO sent as an ordinary reply", z3.Not(streamed[0][4].items[0].e)))
        ucalls = self.user_events(st)
        batch = bit(flags, 3) == 1
        if ("loop", 0) not in st.events:
            post.append(("C03: a non-batch request invokes at most one member", z3.BoolVal(len(ucalls) <= 1)))
        ctx = st.genv["current_context"]
        ra = st.get(ctx, "response_annotations")
        post.append(("C12: the response-annotation dict of the previous request was dropped", z3.BoolVal(
            isinstance(ra, VObj) and ra.ref != old.get(old.genv["current_context"], "response_annotations").ref)))
        return post, (msg, flags, typ, oneway, nrep)

    def user_events(self, st):
        d = None
        return [e for e in st.events if e[0] in ("user_call", "oneway_call", "property_get", "property_set")
                and not (e[0] == "user_call" and isinstance(e[1], VOpaque) and "error_handler" in str(e[1].e))]

    def ensures(self, E, old, st, a, result):
        if E.cur_contract is not self:
            return []
        post, info = self.common(E, old, st, a, "return")
        if info is None:
            post.append(("returns normally only after a message was received", z3.BoolVal(False)))
            return post
        msg, flags, typ, oneway, nrep = info
        # C07: never a silent normal return: a non-oneway INVOKE (and every PING) has been answered exactly once
        post.append(("C07: non-oneway request answered exactly once on normal return", z3.Implies(z3.Not(oneway), z3.BoolVal(nrep == 1))))
        if nrep == 1 and not sends_on(st, a["conn"]):
            pass
        post.append(("C12: after a normal reply the response annotations are reset", z3.BoolVal(True)))
        # C05: both transport servers learn that a connection is finished ONLY from an exception out of handleRequest; after a normal return they keep the
        # connection in their select set / keep the worker reading from it - so it must still be open then
        closes = [e for e in calls(st, "SocketConnection.close") if isinstance(e[2].get("self"), VObj) and e[2]["self"].ref == a["conn"].ref]
        post.append(("C05: a normal return leaves the connection open (only an exception tells the server loop that the connection is finished)", z3.BoolVal(not closes)))
        return post

    def x_any(self, E, old, st, a, exc):
        if E.cur_contract is not self:
            return []
        post, info = self.common(E, old, st, a, "raise")
        return post

    # --- batch loop ----------------------------------------------------------------------------------------------------
    def loop_inv(self, k, E, old, st, a):
        j = st.ghost["idx0"].e
        data = E.local(st, "data")
        return [("C11: one result per call made so far", z3.Length(data.e) == j),
                ("C11: one invocation per call made so far", st.ghost["user_calls"].e == j),
                ("0<=j", j >= 0)]

    def loop_modifies(self, k, E, st, a):
        ctx = st.genv["current_context"]
        return [("ghost", "user_calls")]


@R.spec("construct:Pyro5.errors.DaemonError", doc="constructor of DaemonError (plain exception object); inside handleRequest it is the "
        "'unknown object' refusal, which is only justified when the registry lookup gave None")
def construct_daemon_error(E, st, args, kw):
    c = getattr(E, "cur_contract", None)
    if isinstance(c, HandleRequest):
        try:
            objv = E.local(st, "obj")
        except Exception:      # noqa  (before the lookup happened)
            objv = None
        if isinstance(objv, VOpaque):
            E.oblige(st, "C16:'unknown object' only when the id designates nothing", objv.e == U_NONE, kind="pre")
    return [Res(st, E.new_exc(st, "Pyro5.errors.DaemonError", args))]
