"""Sidecar contract for callcontext._CallContext.from_global (C12): the context a oneway-call thread starts from is exactly the snapshot it was given -
every one of the eight context fields is overwritten, none keeps what the thread had before."""
import z3
from pyvc.values import *
from pyvc.engine import Contract, Res, Unsupported
from pyvc.registry import R
from specs.opaque import u_getitem

FIELDS = ("client", "client_sock_addr", "seq", "msg_flags", "serializer_id", "annotations", "response_annotations", "correlation_id")


@R.contract
class FromGlobal(Contract):
    name = "Pyro5.callcontext._CallContext.from_global"
    props = ("C12",)
    raises = {"builtins.Exception": "x_incomplete"}
    raises_any_subclass = ("builtins.Exception",)
    no_join = True
    trusted = ("`values` is a dict-like snapshot; reading a key yields the stored value or raises (incomplete snapshot)",)

    def setup(self, E, st):
        self.ctx = st.new_obj("Pyro5.callcontext._CallContext")
        for f in FIELDS:
            st.set(self.ctx, f, VOpaque(z3.Const("stale_" + f, U)))
        self.values = VOpaque(z3.Const("values", U))
        return {"self": self.ctx, "values": self.values}

    def ensures(self, E, old, st, a, result):
        post = []
        for f in FIELDS:
            v = st.get(self.ctx, f)
            want = u_getitem(self.values.e, box_str(z3.StringVal(f)))
            post.append(("context field %s is taken from the snapshot (nothing stale survives)" % f, v.e == want if isinstance(v, VOpaque) else z3.BoolVal(False)))
        extra = [k for k in st.heap[self.ctx.ref] if k not in FIELDS and not k.startswith("__")]
        post.append(("no other attribute is invented", z3.BoolVal(not extra)))
        return post

    def x_incomplete(self, E, old, st, a, exc):
        return []


# ----------------------------------------------------------------------------------------------------------------------------------------
# to_global: the snapshot a oneway-call thread is started from

@R.model("Pyro5.callcontext._CallContext")
class ContextModel:
    """the context object: `self.__dict__` is a live view of its attributes (CPython instance dictionary)"""

    def getattr(self, E, st, obj, name):
        if name == "__dict__":
            return [Res(st, st.new_obj("instance_dict_view", of=obj))]
        return None

    methods = {}


@R.model("instance_dict_view")
class InstanceDictView:
    def getattr(self, E, st, obj, name):
        return None

    methods = {}


_prev_dict = R.specs.get("builtins.dict")


@R.spec("builtins.dict", doc="dict(<instance __dict__>): a NEW dict holding the attributes the instance has at that moment (name -> value)")
def b_dict_copy(E, st, args, kw):
    if len(args) == 1 and isinstance(args[0], VObj) and args[0].cls == "instance_dict_view" and not kw:
        src = st.get(args[0], "of")
        fields = {k: v for k, v in st.heap[src.ref].items() if not k.startswith("__")}
        return [Res(st, st.new_obj("dict_snapshot", fields=dict(fields)))]
    if _prev_dict is None:
        raise Unsupported("dict(%r)" % (args,))
    return _prev_dict(E, st, args, kw)


@R.spec("builtins.vars", doc="vars(<instance>): the instance's OWN attribute dictionary (the live object, the same as obj.__dict__) - not a copy")
def b_vars(E, st, args, kw):
    if len(args) == 1 and isinstance(args[0], VObj) and args[0].cls == "Pyro5.callcontext._CallContext":
        return [Res(st, st.new_obj("instance_dict_view", of=args[0]))]
    raise Unsupported("vars(%r)" % (args,))


@R.model("dict_snapshot")
class DictSnapshot:
    """a dict with a statically known key set (string keys)"""

    def getattr(self, E, st, obj, name):
        return None

    def m_getitem(self, E, st, obj, args, kw):
        k = args[0]
        fields = st.get(obj, "fields")
        if isinstance(k, VStr) and z3.is_string_value(z3.simplify(k.e)):
            name = z3.simplify(k.e).as_string()
            if name in fields:
                return [Res(st, fields[name])]
            return [E.raise_(st, "builtins.KeyError")]
        raise Unsupported("snapshot[%r]" % (k,))

    methods = {"__getitem__": m_getitem}


@R.contract
class ToGlobal(Contract):
    name = "Pyro5.callcontext._CallContext.to_global"
    props = ("C12",)
    raises = {}
    no_join = True

    def setup(self, E, st):
        self.ctx = st.new_obj("Pyro5.callcontext._CallContext")
        self.vals = {}
        for f in FIELDS:
            self.vals[f] = VOpaque(z3.Const("cur_" + f, U))
            st.set(self.ctx, f, self.vals[f])
        return {"self": self.ctx}

    def ensures(self, E, old, st, a, result):
        ok = isinstance(result, VObj) and result.cls == "dict_snapshot"
        if not ok:
            return [("the snapshot is a new dict", z3.BoolVal(False))]
        fields = st.get(result, "fields")
        post = [("the snapshot is a new dict, not the context's own attribute dictionary (later changes of the context do not reach it)", z3.BoolVal(result.ref != self.ctx.ref))]
        for f in FIELDS:
            v = fields.get(f)
            post.append(("the snapshot holds the current value of %s" % f, v.e == self.vals[f].e if isinstance(v, VOpaque) else z3.BoolVal(False)))
        post.append(("and nothing else", z3.BoolVal(set(fields) == set(FIELDS))))
        post.append(("the context itself is unchanged", z3.And(*[st.get(self.ctx, f).e == self.vals[f].e for f in FIELDS])))
        return post
