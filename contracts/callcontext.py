"""Sidecar contract for callcontext._CallContext.from_global (C12): the context a oneway-call thread starts from is exactly the snapshot it was given -
every one of the eight context fields is overwritten, none keeps what the thread had before."""
import z3
from pyvc.values import *
from pyvc.engine import Contract, Res, Unsupported
from pyvc.registry import R
from specs.opaque import u_getitem

FIELDS = ("client", "client_sock_addr", "seq", "msg_flags", "serializer_id", "annotations", "response_annotations", "correlation_id")


@R.contract
class FromGlobal(Contract):
    name = "Pyro5.callcontext._CallContext.from_global"
    props = ("C12",)
    raises = {"builtins.Exception": "x_incomplete"}
    raises_any_subclass = ("builtins.Exception",)
    no_join = True
    trusted = ("`values` is a dict-like snapshot; reading a key yields the stored value or raises (incomplete snapshot)",)

    def setup(self, E, st):
        self.ctx = st.new_obj("Pyro5.callcontext._CallContext")
        for f in FIELDS:
            st.set(self.ctx, f, VOpaque(z3.Const("stale_" + f, U)))
        self.values = VOpaque(z3.Const("values", U))
        return {"self": self.ctx, "values": self.values}

    def ensures(self, E, old, st, a, result):
        post = []
        for f in FIELDS:
            v = st.get(self.ctx, f)
            want = u_getitem(self.values.e, box_str(z3.StringVal(f)))
            post.append(("context field %s is taken from the snapshot (nothing stale survives)" % f, v.e == want if isinstance(v, VOpaque) else z3.BoolVal(False)))
        extra = [k for k in st.heap[self.ctx.ref] if k not in FIELDS and not k.startswith("__")]
        post.append(("no other attribute is invented", z3.BoolVal(not extra)))
        return post

    def x_incomplete(self, E, old, st, a, exc):
        return []
