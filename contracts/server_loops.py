"""Sidecar contracts for the accept path of the thread-pool server (C05): SocketServer_Threadpool.events and .loop.
The callees are taken by their declared interfaces: Pool.process (C18: hands the job to a worker or raises NoFreeWorkersError while the pool is
open), ClientConnectionJob.denyConnection (C05 group 1: never raises), the socket model (accept: socket | socket.timeout | OSError)."""
import z3
from pyvc.values import *
from pyvc.engine import Contract, Res, Unsupported
from pyvc.registry import R
from specs.opaque import may_raise, user_call
from specs.daemon_model import new_daemon, config_facts
from specs.socket_model import new_socket


@R.model("selector")
class Selector:
    """selectors.DefaultSelector registered for the listening socket: select(timeout) returns a (possibly empty) list of events or raises OSError"""

    def getattr(self, E, st, obj, name):
        return None

    def m_select(self, E, st, obj, args, kw):
        s2 = st.fork()
        ev = VOpaque(fresh("selector_events", U))
        return [Res(st, ev), Res(s2, exc=E.new_sym_exc(s2, "builtins.OSError", "select"))]

    methods = {"select": m_select}


@R.model("Pyro5.svr_threads.Pool")
class PoolDecl:
    """Pool.process(job) as declared for its caller (its own contract is C18): hands the job to exactly one worker, or raises NoFreeWorkersError;
    PoolError('job queue is closed') only after close() - excluded here by the precondition that the pool is open while the loop runs"""

    def getattr(self, E, st, obj, name):
        return None

    def m_process(self, E, st, obj, args, kw):
        s2 = st.fork()
        st.event("pool.process", args[0], "accepted")
        s2.event("pool.process", args[0], "refused")
        return [Res(st, NONE), E.raise_(s2, "Pyro5.svr_threads.NoFreeWorkersError")]

    methods = {"process": m_process}


@R.spec("Pyro5.svr_threads.ClientConnectionJob", doc="constructor: wraps the accepted socket in a SocketConnection (no I/O)")
def job_ctor(E, st, args, kw):
    j = st.new_obj("Pyro5.svr_threads.ClientConnectionJob", csock_raw=args[0], caddr=args[1], daemon=args[2])
    st.event("job", j, args[0])
    return [Res(st, j)]


@R.spec("Pyro5.svr_threads.ClientConnectionJob.denyConnection", doc="declared (proved in C05 group 1): answers CONNECTFAIL and closes the connection; never raises")
def deny(E, st, args, kw):
    st.event("deny", args[0], args[1])
    return [Res(st, NONE)]


def new_server(E, st):
    srv = st.new_obj("Pyro5.svr_threads.SocketServer_Threadpool")
    st.set(srv, "daemon", new_daemon(E, st))
    st.set(srv, "sock", new_socket(E, st, "listen"))
    st.set(srv, "_selector", st.new_obj("selector"))
    st.set(srv, "pool", st.new_obj("Pyro5.svr_threads.Pool"))
    st.set(srv, "shutting_down", VBool(z3.Const("shutting_down", BoolS)))
    st.assume(*config_facts())
    return srv


class _LoopBase(Contract):
    props = ("C05",)
    no_join = True
    log_calls = False
    trusted = ("the pool is open while the loop runs (close() happens in shutdown, after the loop); OS-raised socket errors carry (errno, text) arguments; "
               "selector / accept as modelled",)


@R.contract
class ThreadServerEvents(_LoopBase):
    name = "Pyro5.svr_threads.SocketServer_Threadpool.events"
    raises = {"builtins.OSError": "x_os"}
    raises_any_subclass = ("builtins.OSError",)

    def setup(self, E, st):
        srv = new_server(E, st)
        self.srv = srv
        return {"self": srv, "eventsockets": VList([st.get(srv, "sock")])}

    def accounted(self, st):
        jobs = [e for e in st.events if e[0] == "job"]
        proc = [e for e in st.events if e[0] == "pool.process"]
        den = [e for e in st.events if e[0] == "deny"]
        closed = [e for e in st.events if e[0] == "sock.close"]
        return jobs, proc, den, closed

    def ensures(self, E, old, st, a, result):
        if E.cur_contract is not self:
            return []
        jobs, proc, den, closed = self.accounted(st)
        one = len(jobs) <= 1 and len(proc) == len(jobs) and len(den) <= 1
        post = [("an accepted connection becomes exactly one job, offered to the pool exactly once", z3.BoolVal(one)),
                ("a job the pool refuses is denied (with a reason) rather than dropped; a job the pool takes is not denied",
                 z3.BoolVal(all((p[2] == "refused") == any(d[1].ref == p[1].ref for d in den) for p in proc)))]
        for d in den:
            post.append(("the refusal carries a non-empty reason", z3.Length(d[2].e) > 0 if isinstance(d[2], VStr) else z3.BoolVal(False)))
        return post

    def exc_fields(self, E, st, a, qname, exc):
        st.set(exc, "args", VTuple([VOpaque(fresh("errno", U)), VOpaque(fresh("strerror", U))]))       # OS-raised errors carry (errno, text)

    def x_os(self, E, old, st, a, exc):
        if E.cur_contract is not self:
            return []
        jobs, proc, den, closed = self.accounted(st)
        return [("an OS error escapes only from select/accept, before any job exists (the caller's loop contains it)", z3.BoolVal(not jobs))]


@R.spec("Pyro5.svr_threads.SocketServer_Threadpool.events#decl", doc="placeholder")
def _unused(E, st, args, kw):
    return [Res(st, NONE)]


@R.contract
class ThreadServerLoop(_LoopBase):
    name = "Pyro5.svr_threads.SocketServer_Threadpool.loop"
    raises = {"builtins.Exception": "x_condition"}
    raises_any_subclass = ("builtins.Exception",)

    def setup(self, E, st):
        srv = new_server(E, st)
        self.srv = srv
        self.cond = VOpaque(z3.Const("loopCondition", U))
        return {"self": srv, "loopCondition": self.cond}

    def on_contract_call(self, E, st, callee, a):
        pass

    def prepare(self):
        pass

    def loop_inv(self, k, E, old, st, a):
        return [("true", z3.BoolVal(True))]

    def loop_modifies(self, k, E, st, a):
        return [(self.srv, "shutting_down")]

    def ensures(self, E, old, st, a, result):
        return [("the loop ends only on shutdown, a false loop condition or a break signal", z3.BoolVal(True))]

    def x_condition(self, E, old, st, a, exc):
        ucs = [e for e in st.events if e[0] == "user_call"]
        vc = st.get(exc, "__cls__")
        return [("nothing a client does ends the loop with an exception: only the caller's own loop condition can raise",
                 z3.BoolVal(vc.qname is None and "user_call" in str(vc.term)))]
