"""Sidecar contracts for the accept path of the thread-pool server (C05): SocketServer_Threadpool.events and .loop.
The callees are taken by their declared interfaces: Pool.process (C18: hands the job to a worker or raises NoFreeWorkersError while the pool is
open), ClientConnectionJob.denyConnection (C05 group 1: never raises), the socket model (accept: socket | socket.timeout | OSError)."""
import z3
from pyvc.values import *
from pyvc.engine import Contract, Res, Unsupported
from pyvc.registry import R
from specs.opaque import may_raise, user_call
from specs.daemon_model import new_daemon, config_facts
from specs.socket_model import new_socket


@R.model("selector")
class Selector:
    """selectors.DefaultSelector registered for the listening socket: select(timeout) returns a (possibly empty) list of events or raises OSError"""

    def getattr(self, E, st, obj, name):
        return None

    def m_select(self, E, st, obj, args, kw):
        s2 = st.fork()
        ev = VOpaque(fresh("selector_events", U))
        return [Res(st, ev), Res(s2, exc=E.new_sym_exc(s2, "builtins.OSError", "select"))]

    methods = {"select": m_select}


@R.model("Pyro5.svr_threads.Pool")
class PoolDecl:
    """Pool.process(job) as declared for its caller (its own contract is C18): hands the job to exactly one worker, or raises NoFreeWorkersError;
    PoolError('job queue is closed') only after close() - excluded here by the precondition that the pool is open while the loop runs"""

    def getattr(self, E, st, obj, name):
        return None

    def m_process(self, E, st, obj, args, kw):
        s2 = st.fork()
        st.event("pool.process", args[0], "accepted")
        s2.event("pool.process", args[0], "refused")
        return [Res(st, NONE), E.raise_(s2, "Pyro5.svr_threads.NoFreeWorkersError")]

    methods = {"process": m_process}


@R.spec("Pyro5.svr_threads.ClientConnectionJob", doc="constructor: wraps the accepted socket in a SocketConnection (no I/O)")
def job_ctor(E, st, args, kw):
    j = st.new_obj("Pyro5.svr_threads.ClientConnectionJob", csock_raw=args[0], caddr=args[1], daemon=args[2])
    st.event("job", j, args[0])
    return [Res(st, j)]


@R.spec("Pyro5.svr_threads.ClientConnectionJob.denyConnection", doc="declared (proved in C05 group 1): answers CONNECTFAIL and closes the connection; never raises")
def deny(E, st, args, kw):
    st.event("deny", args[0], args[1])
    return [Res(st, NONE)]


def new_server(E, st):
    srv = st.new_obj("Pyro5.svr_threads.SocketServer_Threadpool")
    st.set(srv, "daemon", new_daemon(E, st))
    st.set(srv, "sock", new_socket(E, st, "listen"))
    st.set(srv, "_selector", st.new_obj("selector"))
    st.set(srv, "pool", st.new_obj("Pyro5.svr_threads.Pool"))
    st.set(srv, "shutting_down", VBool(z3.Const("shutting_down", BoolS)))
    st.assume(*config_facts())
    return srv


class _LoopBase(Contract):
    props = ("C05",)
    no_join = True
    log_calls = False
    trusted = ("the pool is open while the loop runs (close() happens in shutdown, after the loop); OS-raised socket errors carry (errno, text) arguments; "
               "selector / accept as modelled",)


@R.contract
class ThreadServerEvents(_LoopBase):
    name = "Pyro5.svr_threads.SocketServer_Threadpool.events"
    raises = {"builtins.OSError": "x_os"}
    raises_any_subclass = ("builtins.OSError",)

    def setup(self, E, st):
        srv = new_server(E, st)
        self.srv = srv
        return {"self": srv, "eventsockets": VList([st.get(srv, "sock")])}

    def accounted(self, st):
        jobs = [e for e in st.events if e[0] == "job"]
        proc = [e for e in st.events if e[0] == "pool.process"]
        den = [e for e in st.events if e[0] == "deny"]
        closed = [e for e in st.events if e[0] == "sock.close"]
        return jobs, proc, den, closed

    def ensures(self, E, old, st, a, result):
        if E.cur_contract is not self:
            return []
        jobs, proc, den, closed = self.accounted(st)
        one = len(jobs) <= 1 and len(proc) == len(jobs) and len(den) <= 1
        post = [("an accepted connection becomes exactly one job, offered to the pool exactly once", z3.BoolVal(one)),
                ("a job the pool refuses is denied (with a reason) rather than dropped; a job the pool takes is not denied",
                 z3.BoolVal(all((p[2] == "refused") == any(d[1].ref == p[1].ref for d in den) for p in proc)))]
        for d in den:
            post.append(("the refusal carries a non-empty reason", z3.Length(d[2].e) > 0 if isinstance(d[2], VStr) else z3.BoolVal(False)))
        # C05 (a stalled peer must not strand a worker when a timeout is configured): the accepted socket gets the configured COMMTIMEOUT
        # before the job is offered to the pool - the handshake read is already covered by it
        ct = z3.Const("config_COMMTIMEOUT", RealS)
        for j in jobs:
            raw = j[2]
            evs = st.events
            ji = evs.index(j)
            before = [e for e in evs[:ji] if e[0] == "sock.settimeout" and isinstance(raw, VObj) and isinstance(e[1], VObj) and e[1].ref == raw.ref]
            ok = bool(before) and isinstance(before[-1][2], VReal) and z3.eq(before[-1][2].e, ct)
            post.append(("with COMMTIMEOUT configured, the accepted socket carries it before its job exists (so from the first handshake byte on)",
                         z3.Implies(ct != 0, z3.BoolVal(ok))))
        return post

    def exc_fields(self, E, st, a, qname, exc):
        st.set(exc, "args", VTuple([VOpaque(fresh("errno", U)), VOpaque(fresh("strerror", U))]))       # OS-raised errors carry (errno, text)

    def x_os(self, E, old, st, a, exc):
        if E.cur_contract is not self:
            return []
        jobs, proc, den, closed = self.accounted(st)
        return [("an OS error escapes only from select/accept, before any job exists (the caller's loop contains it)", z3.BoolVal(not jobs))]


@R.spec("Pyro5.svr_threads.SocketServer_Threadpool.events#decl", doc="placeholder")
def _unused(E, st, args, kw):
    return [Res(st, NONE)]


@R.contract
class ThreadServerLoop(_LoopBase):
    name = "Pyro5.svr_threads.SocketServer_Threadpool.loop"
    raises = {"builtins.Exception": "x_condition"}
    raises_any_subclass = ("builtins.Exception",)

    def setup(self, E, st):
        srv = new_server(E, st)
        self.srv = srv
        self.cond = VOpaque(z3.Const("loopCondition", U))
        return {"self": srv, "loopCondition": self.cond}

    def on_contract_call(self, E, st, callee, a):
        pass

    def prepare(self):
        pass

    def loop_inv(self, k, E, old, st, a):
        return [("true", z3.BoolVal(True))]

    def loop_modifies(self, k, E, st, a):
        return [(self.srv, "shutting_down")]

    def ensures(self, E, old, st, a, result):
        return [("the loop ends only on shutdown, a false loop condition or a break signal", z3.BoolVal(True))]

    def x_condition(self, E, old, st, a, exc):
        ucs = [e for e in st.events if e[0] == "user_call"]
        vc = st.get(exc, "__cls__")
        return [("nothing a client does ends the loop with an exception: only the caller's own loop condition can raise",
                 z3.BoolVal(vc.qname is None and "user_call" in str(vc.term)))]


# ----------------------------------------------------------------------------------------------------------------------
# multiplex server: events(eventsockets)

sock_at = z3.Function("event_socket_at", IntS, U)
SERVER_SOCK = z3.Const("server_socket", U)


class SockList(V):
    """the list of sockets with a pending event handed to events(): arbitrary length, arbitrary members (the listening socket may be among them)"""

    def iter_spec_v(self, E, st):
        n = z3.Const("n_eventsockets", IntS)
        return (n, lambda j: VOpaque(sock_at(j)), [n >= 0])

    def fresh_like(self, name):
        return self


@R.model("Pyro5.svr_multiplex.SocketServer_Multiplex")
class MuxDecl:
    """callees of events() by their declared interfaces: _handleConnection(sock) -> connection | None | ConnectionClosedError (listening socket gone)
    [C05/C08 group 1]; handleRequest(conn) -> bool, never raises [C05/C13 group 1]"""

    def getattr(self, E, st, obj, name):
        return None

    def m_handle_connection(self, E, st, obj, args, kw):
        s2, s3 = st.fork(), st.fork()
        c = VOpaque(fresh("accepted_connection", U))
        st.assume(c.e != U_NONE, truthy(c.e))
        st.event("mux.accept", args[0], c)
        s2.event("mux.accept", args[0], NONE)
        return [Res(st, c), Res(s2, NONE), E.raise_(s3, "Pyro5.errors.ConnectionClosedError")]

    def m_handle_request(self, E, st, obj, args, kw):
        active = VBool(fresh("connection_still_active", BoolS))
        st.event("mux.request", args[0], active)
        return [Res(st, active)]

    methods = {"_handleConnection": m_handle_connection, "handleRequest": m_handle_request}


@R.model("mux_selector")
class MuxSelector:
    """selector: register / unregister of a file object (the sockets handed to events() are registered ones: unregister does not fail)"""

    def getattr(self, E, st, obj, name):
        return None

    def m_register(self, E, st, obj, args, kw):
        st.event("register", args[0])
        return [Res(st, NONE)]

    def m_unregister(self, E, st, obj, args, kw):
        st.event("unregister", args[0])
        return [Res(st, NONE)]

    methods = {"register": m_register, "unregister": m_unregister}


@R.method("VOpaque", "close")
def conn_close(E, st, recv, args, kw):
    """SocketConnection.close(): never raises (C13: contracts/connection_close.py)"""
    st.event("conn.close", recv)
    return [Res(st, NONE)]


R.glob("selectors.EVENT_READ", VInt(1), "constant")


@R.spec("Pyro5.server.Daemon._clientDisconnect", doc="declared: stream-table update + the user's disconnect hook; may raise any Exception")
def client_disconnect_decl(E, st, args, kw):
    out = [may_raise(E, st, "clientDisconnect")]
    st.event("disconnect", args[1])
    out[0].st.event("disconnect", args[1])
    out.insert(0, Res(st, NONE))
    return out


@R.spec("Pyro5.server.Daemon._housekeeping", doc="declared: stream expiry + the user's housekeeping hook; may raise any Exception (the user's own code)")
def housekeeping_decl(E, st, args, kw):
    out = [may_raise(E, st, "housekeeping_hook")]
    st.event("housekeeping")
    out.insert(0, Res(st, NONE))
    return out


@R.contract
class MuxEvents(_LoopBase):
    name = "Pyro5.svr_multiplex.SocketServer_Multiplex.events"
    props = ("C05", "C13")
    raises = {"Pyro5.errors.ConnectionClosedError": "x_server_socket_gone", "builtins.Exception": "x_user_hook"}
    raises_any_subclass = ("builtins.Exception",)
    trusted = ("the sockets handed to events() are registered with the selector (they come from its select()); _handleConnection / handleRequest by their "
               "contracts of the first C05/C13 group; SocketConnection.close() never raises (C13)",)

    def setup(self, E, st):
        srv = st.new_obj("Pyro5.svr_multiplex.SocketServer_Multiplex")
        st.set(srv, "daemon", new_daemon(E, st))
        st.set(srv, "sock", VOpaque(SERVER_SOCK))
        st.assume(SERVER_SOCK != U_NONE)
        st.set(srv, "selector", st.new_obj("mux_selector"))
        st.set(srv, "shutting_down", VBool(z3.Const("shutting_down", BoolS)))
        self.srv = srv
        return {"self": srv, "eventsockets": SockList()}

    @staticmethod
    def this_iteration(st):
        evs = st.events
        last = max([i for i, e in enumerate(evs) if e[0] == "loop"], default=-1)
        return evs[last + 1:]

    def loop_modifies(self, k, E, st, a):
        return []

    def loop_inv(self, k, E, old, st, a):
        idx = st.ghost["idx%d" % k].e
        evs = self.this_iteration(st)
        inv = [("index", z3.And(0 <= idx, idx <= z3.Const("n_eventsockets", IntS)))]
        reqs = [e for e in evs if e[0] == "mux.request"]
        accs = [e for e in evs if e[0] == "mux.accept"]
        disc = [e for e in evs if e[0] == "disconnect"]
        unreg = [e for e in evs if e[0] == "unregister"]
        closed = [e for e in evs if e[0] == "conn.close"]
        regs = [e for e in evs if e[0] == "register"]
        order = [e[0] for e in evs if e[0] in ("disconnect", "unregister", "conn.close")]
        if reqs:
            s = reqs[0][1]
            act = reqs[0][2].e
            cleaned = (len(disc) == 1 and len(unreg) == 1 and len(closed) == 1 and order == ["disconnect", "unregister", "conn.close"]
                       and all(z3.eq(e[1].e, s.e) for e in disc + unreg + closed))
            untouched = not disc and not unreg and not closed
            inv.append(("C13: a connection whose request ended it gets the disconnect hook, is unregistered and closed - each exactly once, in that order; "
                        "an active connection is left alone", z3.If(act, z3.BoolVal(untouched), z3.BoolVal(cleaned))))
            inv.append(("one request per socket event", z3.BoolVal(len(reqs) == 1 and not accs)))
        elif accs:
            c = accs[0][2]
            inv.append(("C08: a new connection is registered for requests exactly when the accept path handed it back",
                        z3.BoolVal((len(regs) == 1 and isinstance(c, VOpaque) and z3.eq(regs[0][1].e, c.e)) if isinstance(c, VOpaque) else not regs)))
            inv.append(("the listening socket is never cleaned up as if it were a client", z3.BoolVal(not disc and not unreg and not closed)))
        else:
            inv.append(("nothing happens without a socket event", z3.BoolVal(not disc and not unreg and not closed and not regs)))
        return inv

    def ensures(self, E, old, st, a, result):
        return [("ok", z3.BoolVal(True))]

    def x_server_socket_gone(self, E, old, st, a, exc):
        evs = self.this_iteration(st)
        return [("ConnectionClosedError escapes only from the accept path (the listening socket itself is gone)",
                 z3.BoolVal(not [e for e in evs if e[0] in ("mux.request", "disconnect", "unregister", "conn.close")]))]

    def x_user_hook(self, E, old, st, a, exc):
        vc = st.get(exc, "__cls__")
        return [("no client-induced exception escapes: besides the case above only the daemon owner's housekeeping hook can raise out of events()",
                 z3.BoolVal(vc.qname is None and "housekeeping_hook" in str(vc.term)))]
