"""Sidecar contracts for the class re-creation of the serializers (C04; used by C07): SerializerBase.dict_to_class, make_exception,
and a syntactic closure check of everything the decoding path can call."""
import ast
import z3
from pyvc.values import *
from pyvc.engine import Contract, Res, Unsupported, Module
from pyvc.registry import R
from specs.opaque import may_raise, box, user_call, u_getitem

registered_tag = z3.Function("converter_registered_for", StrS, BoolS)
converter_of = z3.Function("registered_converter", StrS, U)
module_attr = z3.Function("module_attribute", StrS, StrS, U)         # getattr(<module>, name)
module_has = z3.Function("module_has_attribute", StrS, StrS, BoolS)
subclass_of = z3.Function("issubclass_of", U, Cls, BoolS)
in_all_exceptions = z3.Function("in_all_exceptions", StrS, BoolS)
all_exc_entry = z3.Function("all_exceptions_entry", StrS, U)
from pyvc import classes as CL      # noqa: E402

ALLOWED_MODULES = ("Pyro5.errors", "builtins", "sqlite3")


class _PayloadDict:
    pass


@R.model("payload_dict")
class PayloadDict:
    """a decoded class-tagged dict (plain data produced by the serializer library): get / [] / `in` on string keys"""

    def getattr(self, E, st, obj, name):
        return None

    def contains(self, E, st, obj, item):
        return z3.Function("payload_has_key", StrS, BoolS)(item.e) if isinstance(item, VStr) else z3.BoolVal(False)

    def m_get(self, E, st, obj, args, kw):
        k = z3.simplify(args[0].e).as_string()
        if k == "__class__":
            return [Res(st, st.get(obj, "classname"))]
        s2 = st.fork()
        return [Res(st, VOpaque(u_getitem(z3.Const("payload", U), box_str(z3.StringVal(k))))), Res(s2, args[1] if len(args) > 1 else NONE)]

    def m_getitem(self, E, st, obj, args, kw):
        k = z3.simplify(args[0].e).as_string()
        s2 = st.fork()
        return [Res(st, VOpaque(u_getitem(z3.Const("payload", U), box_str(z3.StringVal(k))))), E.raise_(s2, "builtins.KeyError")]

    methods = {"get": m_get, "__getitem__": m_getitem}


@R.model("converter_registry")
class ConverterRegistry:
    """SerializerBase.__custom_dict_to_class_registry: tag -> converter registered by the application"""

    def getattr(self, E, st, obj, name):
        return None

    def contains(self, E, st, obj, item):
        return registered_tag(item.e)

    def m_getitem(self, E, st, obj, args, kw):
        out = []
        for s2, ok in E.branch(st, registered_tag(args[0].e)):
            out.append(Res(s2, VOpaque(converter_of(args[0].e))) if ok else E.raise_(s2, "builtins.KeyError"))
        return out

    def m_setitem(self, E, st, obj, args, kw):
        E.oblige(st, "decoding never writes the converter registry", z3.BoolVal(False), kind="pre")
        return [Res(st, NONE)]

    methods = {"__getitem__": m_getitem, "__setitem__": m_setitem}


@R.model("all_exceptions_table")
class AllExceptions:
    """serializers.all_exceptions: short name -> exception class; built at import time from builtins and Pyro5.errors, filtered by issubclass,
    so every entry is a BaseException subclass"""

    def getattr(self, E, st, obj, name):
        return None

    def _lookup(self, E, st, key):
        c = getattr(E, "cur_contract", None)
        if c is not None and hasattr(c, "on_whitelist_lookup"):
            c.on_whitelist_lookup(E, st, key)

    def contains(self, E, st, obj, item):
        self._lookup(E, st, item)
        return in_all_exceptions(item.e)

    def m_getitem(self, E, st, obj, args, kw):
        self._lookup(E, st, args[0])
        out = []
        for s2, ok in E.branch(st, in_all_exceptions(args[0].e)):
            if ok:
                v = all_exc_entry(args[0].e)
                s2.assume(subclass_of(v, CL.term("builtins.BaseException")), v != U_NONE)
                out.append(Res(s2, VOpaque(v)))
            else:
                out.append(E.raise_(s2, "builtins.KeyError"))
        return out

    def m_setitem(self, E, st, obj, args, kw):
        E.oblige(st, "decoding never writes the exception whitelist", z3.BoolVal(False), kind="pre")
        return [Res(st, NONE)]

    methods = {"__getitem__": m_getitem, "__setitem__": m_setitem}


R.glob("Pyro5.serializers.SerializerBase._SerializerBase__custom_dict_to_class_registry", VObj(-3, "converter_registry"), "the opt-in converter registry")
R.glob("Pyro5.serializers.all_exceptions", VObj(-4, "all_exceptions_table"), "exception whitelist table")


def _dangerous(E, st, what, *args):
    c = getattr(E, "cur_contract", None)
    if c is not None and hasattr(c, "on_construct"):
        c.on_construct(E, st, what, args)
    st.event("construct", what, args)


def _ctor(qname, label):
    def h(E, st, args, kw):
        _dangerous(E, st, label)
        return [Res(st, st.new_obj(qname))]
    return h


for _q, _l in (("Pyro5.core.URI.__new__", "URI"), ("Pyro5.client.Proxy.__new__", "Proxy"), ("Pyro5.server.Daemon.__new__", "Daemon (inert)"),
               ("Pyro5.serializers.SerpentSerializer", "SerpentSerializer"), ("Pyro5.serializers.MarshalSerializer", "MarshalSerializer"),
               ("Pyro5.serializers.JsonSerializer", "JsonSerializer"), ("Pyro5.serializers.MsgpackSerializer", "MsgpackSerializer")):
    R.spec(_q, doc="allocates an object of Pyro's own class %s (no I/O)" % _l)(_ctor(_q.replace(".__new__", ""), _l))


@R.spec("Pyro5.core._ExceptionWrapper", doc="wrapper object around an already decoded exception")
def exc_wrapper(E, st, args, kw):
    _dangerous(E, st, "_ExceptionWrapper")
    return [Res(st, st.new_obj("Pyro5.core._ExceptionWrapper", exception=args[0]))]


for _q in ("builtins.set", "builtins.frozenset", "builtins.dict", "builtins.tuple", "builtins.list"):
    if _q not in R.globals and _q not in R.specs:
        R.glob(_q, VClass(_q, None), "a builtin container class (only used in isinstance tests)")


def is_plain(x, kinds=("list", "tuple")):
    """x is an instance of one of the builtin container classes (the isinstance test of the code, uninterpreted per class)"""
    return z3.Or([z3.Function("isinstance_builtins." + k, U, BoolS)(x) for k in kinds])


def _taken_apart(E, st, v, what, kinds=("list", "tuple")):
    # C04 "decoding never ... opens sockets": a member of a class dict may ALREADY be a revived object (msgpack's object_hook runs bottom-up) - a Proxy answers iteration,
    # indexing, len() and attribute access by calling its remote object.  So a member is unpacked / iterated / measured only after it was seen to be a plain container.
    E.oblige(st, "%s is taken apart only after it was checked to be a plain %s (a revived Proxy would be called)" % (what, " / ".join(kinds)),
             is_plain(v.e, kinds) if isinstance(v, VOpaque) else z3.BoolVal(isinstance(v, (VTuple, VList))), kind="pre")


for _cls in ("Pyro5.core.URI", "Pyro5.client.Proxy", "Pyro5.server.Daemon"):
    def _setstate(E, st, args, kw, _c=_cls):
        state = args[-1]
        _taken_apart(E, st, state, "the state handed to %s.__setstate__" % _c.rsplit(".", 1)[-1])
        if _c.endswith("Proxy") and isinstance(state, VOpaque):
            for i in (1, 2, 3):
                member = VOpaque(u_getitem(state.e, box_int(z3.IntVal(i))))
                _taken_apart(E, st, member, "member %d of a proxy state (iterated into a set)" % i, ("list", "tuple", "set", "frozenset"))
        s2 = st.fork()
        return [Res(st, NONE), Res(s2, exc=E.new_sym_exc(s2, "builtins.Exception", "setstate"))]
    R.spec(_cls + ".__setstate__", doc="restores plain attributes from the state tuple (Proxy: re-parses the URI text); no I/O - see the syntactic closure check")(_setstate)


@R.method("VStr", "split")
def s_split_n(E, st, recv, args, kw):
    """s.split(sep, k) for k in (1, 2): list of the parts (case split on the number of separators present)"""
    sep = args[0]
    k = E._const_int(args[1]) if len(args) > 1 else None
    if k not in (1, 2):
        raise Unsupported("str.split without small maxsplit")
    s = recv.e
    i = z3.IndexOf(s, sep.e, 0)
    out = []
    for s2, has1 in E.branch(st, i >= 0):
        if not has1:
            out.append(Res(s2, VList([VStr(s)])))
            continue
        a = z3.SubString(s, 0, i)
        rest = z3.SubString(s, i + z3.Length(sep.e), z3.Length(s) - i - z3.Length(sep.e))
        if k == 1:
            out.append(Res(s2, VList([VStr(a), VStr(rest)])))
            continue
        j = z3.IndexOf(rest, sep.e, 0)
        for s3, has2 in E.branch(s2, j >= 0):
            if not has2:
                out.append(Res(s3, VList([VStr(a), VStr(rest)])))
            else:
                b = z3.SubString(rest, 0, j)
                c = z3.SubString(rest, j + z3.Length(sep.e), z3.Length(rest) - j - z3.Length(sep.e))
                out.append(Res(s3, VList([VStr(a), VStr(b), VStr(c)])))
    return out


_prev_getattr = R.specs.get("builtins.getattr")


@R.spec("builtins.getattr")
def ds_getattr(E, st, args, kw):
    v = args[0]
    if isinstance(v, VModule) and isinstance(args[1], VStr) and not z3.is_string_value(z3.simplify(args[1].e)):
        c = getattr(E, "cur_contract", None)
        if c is not None and hasattr(c, "on_module_getattr"):
            c.on_module_getattr(E, st, v.name, args[1])
        mod = z3.StringVal(v.name)
        out = []
        for s2, has in E.branch(st, module_has(mod, args[1].e)):
            if has:
                val = module_attr(mod, args[1].e)
                s2.assume(val != U_NONE)
                out.append(Res(s2, VOpaque(val)))
            elif len(args) > 2:
                out.append(Res(s2, args[2]))
            else:
                out.append(E.raise_(s2, "builtins.AttributeError"))
        return out
    return _prev_getattr(E, st, args, kw)


@R.spec("builtins.issubclass", doc="issubclass(x, C) on a class object fetched from a module: uninterpreted; TypeError if x is not a class")
def b_issubclass(E, st, args, kw):
    x, c = args
    if isinstance(x, VOpaque) and isinstance(c, VClass) and c.qname:
        s2 = st.fork()
        # issubclass is upward closed along the (concrete, known) class lattice
        for anc in CL.all_known():
            if anc != CL.canon(c.qname) and CL.is_subclass(c.qname, anc):
                st.assume(z3.Implies(subclass_of(x.e, CL.term(c.qname)), subclass_of(x.e, CL.term(anc))))
        return [Res(st, VBool(subclass_of(x.e, CL.term(c.qname)))), E.raise_(s2, "builtins.TypeError")]
    raise Unsupported("issubclass(%r, %r)" % (x, c))


@R.contract
class MakeException(Contract):
    name = "Pyro5.serializers.SerializerBase.make_exception"
    props = ("C04", "C07")
    raises = {"builtins.Exception": "x_any"}
    raises_any_subclass = ("builtins.Exception",)
    log_calls = True

    def requires(self, E, st, a):
        t = a["exceptiontype"]
        if isinstance(t, VClass) and t.qname:
            return [("only exception classes are instantiated", z3.BoolVal(CL.is_subclass(t.qname, "builtins.BaseException")))]
        return [("only exception classes are instantiated", subclass_of(t.e, CL.term("builtins.BaseException")))]

    def result(self, E, st, a):
        return VOpaque(fresh("rebuilt_exception", U))

    def x_any(self, E, old, st, a, exc):
        return []


@R.contract
class DictToClass(Contract):
    name = "Pyro5.serializers.SerializerBase.dict_to_class"
    props = ("C04", "C07")
    raises = {"builtins.Exception": "x_any"}
    raises_any_subclass = ("builtins.Exception",)
    no_join = True
    trusted = ("the decoded payload is a dict with string keys; its MEMBERS are arbitrary values (plain data, or - msgpack revives bottom-up - objects this function built earlier); all_exceptions holds only BaseException subclasses "
               "(built with that filter at import time); module attribute lookup and issubclass are uninterpreted",)

    def setup(self, E, st):
        self.classname = VStr(z3.Const("classname", StrS))
        data = st.new_obj("payload_dict", classname=self.classname)
        return {"cls": VClass("Pyro5.serializers.SerializerBase", None), "data": data}

    def reg(self):
        return registered_tag(self.classname.e)

    def no_dunder(self):
        return z3.Not(z3.Contains(self.classname.e, z3.StringVal("__")))

    def on_user_call(self, E, st, target, args, kwargs, kind):
        # the only callable that is not one of Pyro's own fixed constructors: a converter the application registered for this tag
        ok = z3.And(self.reg(), target.e == converter_of(self.classname.e)) if isinstance(target, VOpaque) else z3.BoolVal(False)
        E.oblige(st, "only a converter registered for exactly this tag is ever called", ok, kind="pre")

    def on_construct(self, E, st, what, args):
        E.oblige(st, "Pyro's own classes (%s) are built only for tags without a double underscore" % what, self.no_dunder(), kind="pre")
        E.oblige(st, "... and only when no converter is registered for the tag", z3.Not(self.reg()), kind="pre")

    def on_module_getattr(self, E, st, modname, name):
        E.oblige(st, "attributes are fetched by name only from Pyro5.errors, builtins and sqlite3", z3.BoolVal(modname in ALLOWED_MODULES), kind="pre")
        E.oblige(st, "a name is resolved in a module only for tags without a double underscore", self.no_dunder(), kind="pre")
        ns = {"Pyro5.errors": "Pyro5.errors.", "builtins": None, "sqlite3": "sqlite3."}[modname] if modname in ALLOWED_MODULES else None
        cn = self.classname.e
        if modname == "Pyro5.errors":
            E.oblige(st, "the Pyro5.errors namespace is matched exactly (prefix 'Pyro5.errors.', name = the rest)", cn == z3.Concat(z3.StringVal("Pyro5.errors."), name.e), kind="pre")
        elif modname == "sqlite3":
            E.oblige(st, "the sqlite3 namespace is matched exactly", cn == z3.Concat(z3.StringVal("sqlite3."), name.e), kind="pre")
        elif modname == "builtins":
            E.oblige(st, "the builtins namespace is matched exactly", z3.Or(cn == z3.Concat(z3.StringVal("builtins."), name.e),
                                                                        cn == z3.Concat(z3.StringVal("exceptions."), name.e)), kind="pre")

    def on_whitelist_lookup(self, E, st, key):
        # C07: the class an exception is rebuilt as is the one its COMPLETE tag names (module-qualified), never a same-named class of another module
        E.oblige(st, "the exception whitelist is consulted with the complete class tag", key.e == self.classname.e if isinstance(key, VStr) else z3.BoolVal(False), kind="pre")

    def on_contract_call(self, E, st, callee, a):
        if callee.name.endswith("make_exception"):
            E.oblige(st, "exceptions are rebuilt only for tags without a double underscore", self.no_dunder(), kind="pre")
            E.oblige(st, "... and only when no converter is registered for the tag", z3.Not(self.reg()), kind="pre")

    def result(self, E, st, a):
        return VOpaque(fresh("rebuilt_object", U))

    def ensures(self, E, old, st, a, result):
        if E.cur_contract is not self or getattr(E, "at_call_site", False):      # (the nested call for a wrapped exception is a call site too)
            return []
        built = [e for e in st.events if e[0] == "construct"]
        made = [e for e in st.events if e[0] == "call" and e[1].endswith("make_exception")]
        conv = [e for e in st.events if e[0] == "user_call"]
        nested = [e for e in st.events if e[0] == "call" and e[1].endswith("dict_to_class")]
        return [("whatever is returned was built by exactly one of: a registered converter, one of Pyro's fixed constructors, make_exception",
                 z3.BoolVal(len(conv) + len(made) + len([b for b in built if b[1] != "_ExceptionWrapper"]) + len([b for b in built if b[1] == "_ExceptionWrapper"]) >= 1)),
                ("a tag containing a double underscore is served only by a registered converter", z3.Implies(z3.Not(self.no_dunder()), z3.BoolVal(bool(conv) and not built and not made)))]

    def x_any(self, E, old, st, a, exc):
        return []


R.spec("Pyro5.serializers.SerializerBase.dict_to_class:nested")(lambda E, st, args, kw: [Res(st, VOpaque(fresh("nested", U)))])


# ----------------------------------------------------------------------------------------------------------------------
# syntactic closure: what the decoding functions can reach

FORBIDDEN_NAMES = {"__import__", "eval", "exec", "compile", "open", "input", "breakpoint", "globals", "locals", "vars_"}
FORBIDDEN_MODULES = {"importlib", "subprocess", "os", "socket", "pickle", "shutil", "ctypes", "pty", "runpy", "code"}
DECODING_FUNCS = [("Pyro5.serializers", "SerializerBase.dict_to_class"), ("Pyro5.serializers", "SerializerBase.make_exception"),
                  ("Pyro5.serializers", "SerializerBase.recreate_classes"), ("Pyro5.serializers", "SerpentSerializer.dict_to_class"),
                  ("Pyro5.serializers", "MsgpackSerializer.object_hook"), ("Pyro5.serializers", "MsgpackSerializer.ext_hook"),
                  ("Pyro5.core", "URI.__setstate__"), ("Pyro5.client", "Proxy.__setstate__"), ("Pyro5.server", "Daemon.__setstate__"),
                  ("Pyro5.core", "_ExceptionWrapper.__init__")]


@R.lemma("C04:decoding-closure", props=("C04",))
def decoding_closure(E):
    """the functions on the decoding path name no importer, evaluator, file/process/socket opener, and import nothing but sqlite3 and
    Pyro's own modules (checked on the AST of the current tree)"""
    for modq, fq in DECODING_FUNCS:
        mod = Module.load(modq)
        fn = mod.funcs.get(fq)
        st = __import__("pyvc.engine", fromlist=["State"]).State()
        if fn is None:
            E.oblige(st, "%s.%s exists" % (modq, fq), z3.BoolVal(False), kind="lemma")
            continue
        bad = []
        for n in ast.walk(fn):
            if isinstance(n, ast.Name) and n.id in FORBIDDEN_NAMES:
                bad.append("name %s at line %d" % (n.id, n.lineno))
            if isinstance(n, ast.Attribute) and isinstance(n.value, ast.Name) and n.value.id in FORBIDDEN_MODULES:
                bad.append("%s.%s at line %d" % (n.value.id, n.attr, n.lineno))
            if isinstance(n, ast.Attribute) and n.attr in ("import_module", "system", "popen", "Popen", "literal_eval"):
                bad.append("attribute %s at line %d" % (n.attr, n.lineno))
            if isinstance(n, ast.Import):
                for al in n.names:
                    if al.name != "sqlite3":
                        bad.append("import %s at line %d" % (al.name, n.lineno))
            if isinstance(n, ast.ImportFrom) and not n.level:
                bad.append("from %s import at line %d" % (n.module, n.lineno))
        E.oblige(st, "%s.%s reaches no importer / evaluator / opener (%s)" % (modq, fq, "; ".join(bad) or "clean"), z3.BoolVal(not bad), kind="lemma")
