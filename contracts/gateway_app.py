"""Sidecar contracts for the routing part of the http gateway (C20): utils.httpgateway.pyro_app and singlyfy_parameters.
pyro_app: a request reaches process_pyro_request exactly when its path starts with 'pyro/' (after leading slashes) and its method is GET or POST - with the
path behind that prefix, the environ and the start_response it was given, and the parameters parsed from QUERY_STRING with blank values KEPT (an empty
value is a value) and made single by singlyfy_parameters; every other request is answered by exactly one of the fixed replies (redirect, OPTIONS reply,
405, 404) and process_pyro_request is not reached."""
import z3
from pyvc.values import *
from pyvc.engine import Contract, Res, Unsupported
from pyvc.registry import R
from specs.opaque import may_raise
import contracts.gateway as G      # noqa: F401   (environ model, settings model)

GW = "Pyro5.utils.httpgateway."
parse_qs_of = z3.Function("parse_qs_keeping_blank_values", U, U)
singly_of = z3.Function("singlyfied", U, U)


@R.spec("urllib.parse.parse_qs", doc="parse_qs(text, keep_blank_values=...): the parameter dict of the query string; the gateway must ask for blank values to be kept")
def parse_qs(E, st, args, kw):
    keep = kw.get("keep_blank_values", args[1] if len(args) > 1 else VBool(False))
    st.event("parse_qs", args[0], keep)
    return [Res(st, VOpaque(parse_qs_of(args[0].e if isinstance(args[0], VOpaque) else box_str(args[0].e)))), may_raise(E, st.fork(), "parse_qs")]


lstrip_slash = z3.Function("str_lstrip_slash", StrS, StrS)


@R.method("VStr", "lstrip")
def s_lstrip(E, st, recv, args, kw):
    """s.lstrip('/'): the text without its leading slashes (a suffix of s that does not start with '/')"""
    if len(args) == 1 and isinstance(args[0], VStr) and z3.is_true(z3.simplify(args[0].e == z3.StringVal("/"))):
        r = lstrip_slash(recv.e)
        st.assume(z3.SuffixOf(r, recv.e), z3.Not(z3.PrefixOf(z3.StringVal("/"), r)))
        return [Res(st, VStr(r))]
    raise Unsupported("lstrip(%r)" % (args,))


for _name in ("redirect", "option_request", "invalid_request", "not_found"):
    def _mk(name):
        def h(E, st, args, kw):
            st.event("fixed_reply", name, tuple(args))
            return [Res(st, VOpaque(fresh("reply_body_" + name, U)))]
        return h
    R.spec(GW + _name, doc="one of the gateway's fixed replies: calls start_response once and returns the body; no Pyro traffic")(_mk(_name))


@R.contract
class SinglyfyDecl(Contract):
    name = GW + "singlyfy_parameters"
    props = ()
    raises = {}

    def result(self, E, st, a):
        p = a["parameters"]
        return VOpaque(singly_of(p.e)) if isinstance(p, VOpaque) else VOpaque(fresh("singlyfied", U))


@R.contract
class ProcessDecl(Contract):
    """process_pyro_request by its interface (verified in the first contract group of C20)"""
    name = GW + "process_pyro_request"
    props = ()
    raises = {"builtins.Exception": "x_any"}
    raises_any_subclass = ("builtins.Exception",)

    def result(self, E, st, a):
        return VOpaque(fresh("response_body", U))

    def x_any(self, E, old, st, a, exc):
        return []


@R.contract
class PyroApp(Contract):
    name = GW + "pyro_app"
    props = ("C20",)
    raises = {"builtins.Exception": "x_any"}
    raises_any_subclass = ("builtins.Exception",)
    no_join = True
    trusted = ("WSGI environ as a mapping of texts; urllib.parse.parse_qs uninterpreted (its keep_blank_values argument is observed); the four fixed replies and process_pyro_request by their interfaces",)

    def setup(self, E, st):
        self.env = st.new_obj("wsgi.environ")
        self.sr = VOpaque(z3.Const("start_response", U))
        app = st.new_obj("pyro_app.settings", comm_timeout=VOpaque(z3.Const("app_comm_timeout", U)))
        st.genv = {"pyro_app": app}
        return {"environ": self.env, "start_response": self.sr}

    def _facts(self, st):
        method = st.get(self.env, "env:REQUEST_METHOD").e if st.has(self.env, "env:REQUEST_METHOD") else None
        path = st.get(self.env, "env:PATH_INFO").e if st.has(self.env, "env:PATH_INFO") else None
        return method, path

    def ensures(self, E, old, st, a, result):
        method, path = self._facts(st)
        calls = [e for e in st.events if e[0] == "call" and e[1] == GW + "process_pyro_request"]
        fixed = [e for e in st.events if e[0] == "fixed_reply"]
        qs = [e for e in st.events if e[0] == "parse_qs"]
        post = [("exactly one reply per request: the forwarded one or one fixed reply", z3.BoolVal(len(calls) + len(fixed) == 1))]
        if method is None or path is None:
            return post + [("method and path were read from the environ", z3.BoolVal(False))]
        stripped = lstrip_slash(path)
        is_pyro = z3.PrefixOf(z3.StringVal("pyro/"), stripped)
        getpost = z3.Or(method == z3.StringVal("GET"), method == z3.StringVal("POST"))
        if calls:
            c = calls[0][2]
            post += [("forwarded only for a path under pyro/ with method GET or POST", z3.And(is_pyro, getpost)),
                     ("forwarded with the path behind 'pyro/'", c["path"].e == z3.SubString(stripped, 5, z3.Length(stripped) - 5) if isinstance(c["path"], VStr) else z3.BoolVal(False)),
                     ("forwarded with the same environ and start_response", z3.BoolVal(isinstance(c["environ"], VObj) and c["environ"].ref == self.env.ref and
                                                                                      isinstance(c["start_response"], VOpaque) and z3.eq(c["start_response"].e, self.sr.e))),
                     ("the query string is parsed exactly once, keeping blank values (an empty value is a value)",
                      z3.BoolVal(len(qs) == 1 and isinstance(qs[0][2], VBool) and z3.is_true(z3.simplify(qs[0][2].e)))),
                     ("the parameters forwarded are the singlyfied parse of QUERY_STRING", z3.BoolVal(
                         len(qs) == 1 and isinstance(c["parameters"], VOpaque) and isinstance(qs[0][1], VOpaque) and
                         z3.eq(c["parameters"].e, singly_of(parse_qs_of(qs[0][1].e)))))]
        else:
            post.append(("a request that is not forwarded is not a GET / POST under pyro/", z3.Not(z3.And(is_pyro, getpost))))
        return post

    def x_any(self, E, old, st, a, exc):
        return []


# ------------------------------------------------------------------------------------------------------------------------------------------
# singlyfy_parameters (body): a dict whose values are rewritten in place while its items are walked

from specs.opaque import u_getitem, u_len, u_isinstance, box      # noqa: E402
from pyvc.engine import State      # noqa: E402


@R.model("param_dict")
class ParamDict:
    """the parse_qs result: entries (key_i, value_i), i < n, keys pairwise distinct; items() walks them in order; assigning to the key being visited replaces its value in
    place (the size does not change, so the walk goes on); assigning to any other key is outside the model"""

    def getattr(self, E, st, obj, name):
        return None

    def m_items(self, E, st, obj, args, kw):
        return [Res(st, st.new_obj("param_dict_items", d=obj))]

    def m_setitem(self, E, st, obj, args, kw):
        k, v = args
        idx = st.ghost.get("idx0")
        if idx is None:
            raise Unsupported("parameter dict written outside its walk")
        E.oblige(st, "only the entry being visited is assigned (the dict does not change size during the walk)",
                 z3.And(0 <= idx.e, idx.e < st.get(obj, "n").e, box(k) == z3.Select(st.get(obj, "keys"), idx.e)), kind="pre")
        st.set(obj, "vals", z3.Store(st.get(obj, "vals"), idx.e, box(v)))
        return [Res(st, NONE)]

    methods = {"items": m_items, "__setitem__": m_setitem}


@R.model("param_dict_items")
class ParamDictItems:
    def getattr(self, E, st, obj, name):
        return None

    def iter_spec(self, E, st, obj):
        d = st.get(obj, "d")
        return st.get(d, "n").e, (lambda j: VTuple([VOpaque(z3.Select(st.get(d, "keys"), j)), VOpaque(z3.Select(st_now(st, d), j))]))

    methods = {}


def st_now(st, d):
    return st.get(d, "vals")


def single(v):
    """what singlyfy makes of one value"""
    listlike = u_isinstance(None, State(), [VOpaque(v), ["builtins.list", "builtins.tuple"]], {})[0].val.e      # the very term isinstance(value, (list, tuple)) evaluates to
    return z3.If(z3.And(listlike, u_len(v) == 1), u_getitem(v, box_int(z3.IntVal(0))), v)


@R.contract
class Singlyfy(Contract):
    name = GW + "singlyfy_parameters#body"
    real_name = GW + "singlyfy_parameters"
    props = ("C20",)
    raises = {"builtins.Exception": "x_any"}
    raises_any_subclass = ("builtins.Exception",)
    no_join = True
    trusted = ("the parameter dict as an in-place walked association list (CPython allows replacing values of existing keys while iterating)",
               "values are arbitrary objects in the model, so len(value) / value[0] may raise; for the lists of texts parse_qs yields they do not")

    def x_any(self, E, old, st, a, exc):
        return [("size and keys unchanged", z3.And(st.get(self.d, "n").e == self.n, z3.BoolVal(z3.eq(st.get(self.d, "keys"), self.keys))))]

    def setup(self, E, st):
        self.n = z3.Int("n_params")
        self.keys = z3.Const("param_keys", z3.ArraySort(IntS, U))
        self.vals0 = z3.Const("param_vals", z3.ArraySort(IntS, U))
        st.assume(self.n >= 0)
        self.d = st.new_obj("param_dict", n=VInt(self.n), keys=self.keys, vals=self.vals0)
        return {"parameters": self.d}

    def ensures(self, E, old, st, a, result):
        i = z3.Int("i!post")
        vals = st.get(self.d, "vals")
        return [("the same dict object is returned", z3.BoolVal(isinstance(result, VObj) and result.ref == self.d.ref)),
                ("every value that is a list / tuple of exactly one element is replaced by that element, every other value is kept; keys and size unchanged",
                 z3.And(st.get(self.d, "n").e == self.n, z3.BoolVal(z3.eq(st.get(self.d, "keys"), self.keys)),
                        z3.ForAll([i], z3.Implies(z3.And(0 <= i, i < self.n), z3.Select(vals, i) == single(z3.Select(self.vals0, i))))))]

    def loop_modifies(self, k, E, st, a):
        return [(self.d, "vals")]

    def loop_inv(self, k, E, old, st, a):
        i = z3.Int("i!inv")
        idx = st.ghost["idx0"].e
        vals = st.get(self.d, "vals")
        return [("index in range", z3.And(0 <= idx, idx <= self.n)),
                ("visited entries are made single, the others are untouched",
                 z3.ForAll([i], z3.Implies(z3.And(0 <= i, i < self.n),
                                           z3.Select(vals, i) == z3.If(i < idx, single(z3.Select(self.vals0, i)), z3.Select(self.vals0, i))))),
                ("size and keys unchanged", z3.And(st.get(self.d, "n").e == self.n, z3.BoolVal(z3.eq(st.get(self.d, "keys"), self.keys))))]
