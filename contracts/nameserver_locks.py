"""Sidecar contracts for the NameServer operations, monitor discipline (C15): every storage access of a public operation
happens while holding self.lock (M1), inside one outermost critical section (M3)."""
import z3
from pyvc.values import *
from pyvc.engine import Contract, Res, Unsupported
from pyvc.registry import R
from specs.storage_model import new_storage, _Meta
from specs.opaque import may_raise


def new_nameserver(E, st):
    ns = st.new_obj("Pyro5.nameserver.NameServer")
    st.set(ns, "storage", new_storage(st))
    st.set(ns, "lock", st.new_obj("lock", name="NameServer.lock"))
    return ns


class _NSOp(Contract):
    props = ("C15",)
    raises = {"builtins.Exception": "x_any"}
    raises_any_subclass = ("builtins.Exception",)
    log_calls = False
    trusted = ("threading.RLock provides mutual exclusion; a single storage method is atomic (one dict operation under the GIL / one sqlite transaction)",
               "from M1 (all accesses under the lock) and M3 (one outermost section per operation) linearizability follows by the standard monitor argument (DESIGN 2.5), not machine checked")

    def base_setup(self, E, st):
        self.ns = new_nameserver(E, st)
        st.ghost["sections"] = VInt(0)
        st.ghost["accesses"] = VInt(0)
        return self.ns

    def on_lock(self, E, st, cm, phase):
        if cm.ref == st.get(self.ns, "lock").ref and phase == "enter" and st.locks.get(cm.ref, 0) == 1:
            st.ghost["sections"] = VInt(st.ghost["sections"].e + 1)

    def on_access(self, E, st, obj, op):
        if obj.ref == st.get(self.ns, "storage").ref:
            lock = st.get(self.ns, "lock")
            E.oblige(st, "lock:storage.%s-while-holding-NameServer.lock" % op, z3.BoolVal(st.locks.get(lock.ref, 0) > 0), kind="lock")
            st.ghost["accesses"] = VInt(st.ghost["accesses"].e + 1)

    def _post(self, st):
        sec = z3.simplify(st.ghost["sections"].e)
        return [("M3: all storage accesses of the operation lie in ONE outermost critical section", z3.BoolVal(z3.is_int_value(sec) and sec.as_long() <= 1)),
                ("lock released on exit", z3.BoolVal(all(v == 0 for v in st.locks.values())))]

    def _as_callee(self, E, st, a):
        """another NameServer operation called from within an operation: it opens its own outermost critical section unless
        the caller already holds the lock (the lock is re-entrant)"""
        caller = E.cur_contract
        if isinstance(caller, _NSOp) and "sections" in st.ghost:
            lock = st.get(caller.ns, "lock")
            if st.locks.get(lock.ref, 0) == 0:
                st.ghost["sections"] = VInt(st.ghost["sections"].e + 1)
        return []

    def ensures(self, E, old, st, a, result):
        if E.cur_contract is not self:
            return self._as_callee(E, st, a)
        return self._post(st)

    def x_any(self, E, old, st, a, exc):
        if E.cur_contract is not self:
            return self._as_callee(E, st, a)
        return self._post(st)

    def loop_inv(self, k, E, old, st, a):
        lock = st.get(self.ns, "lock")
        return [("still inside the critical section", z3.BoolVal(st.locks.get(lock.ref, 0) > 0))]

    def local_abstraction(self, E, st, name, val):
        if name == "result" and isinstance(val, VObj) and val.cls == "seqdict":
            from specs.storage_model import new_sdict
            return new_sdict(st, "result", fresh_content=False)
        return val


def _s(name):
    return VStr(z3.Const(name, StrS))


@R.contract
class NSCount(_NSOp):
    name = "Pyro5.nameserver.NameServer.count"

    def setup(self, E, st):
        return {"self": self.base_setup(E, st)}


@R.contract
class NSLookup(_NSOp):
    name = "Pyro5.nameserver.NameServer.lookup"

    def result(self, E, st, a):
        return VOpaque(fresh("looked_up_uri", U))

    def setup(self, E, st):
        return {"self": self.base_setup(E, st), "name": _s("name"), "return_metadata": VBool(z3.Const("return_metadata", BoolS))}


@R.contract
class NSRegister(_NSOp):
    name = "Pyro5.nameserver.NameServer.register"

    def setup(self, E, st):
        return {"self": self.base_setup(E, st), "name": _s("name"), "uri": _s("uri"), "safe": VBool(z3.Const("safe", BoolS)),
                "metadata": VOpaque(z3.Const("metadata", U))}


@R.contract
class NSSetMetadata(_NSOp):
    name = "Pyro5.nameserver.NameServer.set_metadata"

    def setup(self, E, st):
        return {"self": self.base_setup(E, st), "name": _s("name"), "metadata": VOpaque(z3.Const("metadata", U))}


@R.contract
class NSRemove(_NSOp):
    name = "Pyro5.nameserver.NameServer.remove"

    def setup(self, E, st):
        def opt(n):
            return VOpt(z3.Const(n + "_is_none", BoolS), _s(n))
        return {"self": self.base_setup(E, st), "name": opt("name"), "prefix": opt("prefix"), "regex": opt("regex")}


@R.contract
class NSList(_NSOp):
    name = "Pyro5.nameserver.NameServer.list"

    def setup(self, E, st):
        def opt(n):
            return VOpt(z3.Const(n + "_is_none", BoolS), _s(n))
        return {"self": self.base_setup(E, st), "prefix": opt("prefix"), "regex": opt("regex"), "return_metadata": VBool(z3.Const("return_metadata", BoolS))}

    def result(self, E, st, a):
        from specs.storage_model import new_sdict
        return new_sdict(st, "listing")


@R.contract
class NSYplookup(_NSOp):
    name = "Pyro5.nameserver.NameServer.yplookup"

    def setup(self, E, st):
        return {"self": self.base_setup(E, st), "meta_all": VOpaque(z3.Const("meta_all", U)), "meta_any": VOpaque(z3.Const("meta_any", U)),
                "return_metadata": VBool(z3.Const("return_metadata", BoolS))}


# what the operations call besides the storage ---------------------------------------------------------------------------

@R.spec("Pyro5.core.URI", doc="URI(text): parses (C19); here only: returns a URI object or raises PyroError for an invalid text")
def uri_ctor(E, st, args, kw):
    s2 = st.fork()
    return [Res(st, VOpaque(fresh("uri_obj", U))), E.raise_(s2, "Pyro5.errors.PyroError")]


_prev_set = R.specs.get("builtins.set")


@R.spec("builtins.set", doc="set(iterable of an opaque value): a tag set, or TypeError if not iterable")
def b_set(E, st, args, kw):
    if _prev_set is not None and not isinstance(getattr(E, "cur_contract", None), _NSOp):
        return _prev_set(E, st, args, kw)
    if not args:
        return [Res(st, _Meta(z3.K(StrS, z3.BoolVal(False))))]
    v = args[0]
    if isinstance(v, _Meta):
        return [Res(st, v)]
    s2 = st.fork()
    return [Res(st, _Meta(fresh("tagset", z3.ArraySort(StrS, BoolS)))), E.raise_(s2, "builtins.TypeError")]


R.spec("builtins.frozenset")(b_set)


@R.spec("builtins.iter", doc="iter(x): an iterator or TypeError")
def b_iter(E, st, args, kw):
    s2 = st.fork()
    return [Res(st, VOpaque(fresh("iterator", U))), E.raise_(s2, "builtins.TypeError")]


@R.spec("re.compile", doc="re.compile(pattern): a pattern object or re.error")
def re_compile(E, st, args, kw):
    s2 = st.fork()
    return [Res(st, st.new_obj("re.Pattern", pattern=args[0])), E.raise_(s2, "re.error")]


@R.model("re.Pattern")
class PatternModel:
    """compiled regular expression: match(s) is an uninterpreted predicate of (pattern, s)"""

    def getattr(self, E, st, obj, name):
        return None

    def m_match(self, E, st, obj, args, kw):
        p = st.get(obj, "pattern")
        pe = p.e if isinstance(p, VStr) else (p.val.e if isinstance(p, VOpt) else z3.StringVal("?"))
        hit = z3.Function("re_match", StrS, StrS, BoolS)(pe, args[0].e)
        return [Res(st, VOpaque(z3.If(hit, fresh("match_obj", U), U_NONE)))]

    methods = {"match": m_match}


@R.lemma("C15:storage-frame", props=("C15",))
def storage_frame(E):
    """the name server's storage is touched only by the seven public operations under contract (each under self.lock, in one critical section), by the constructor,
    and by the closing of the name server daemon (storage.close()); `main` only passes a command line option of the same name on"""
    from contracts.frames import frame_obligations
    N = "Pyro5/nameserver.py:NameServer."
    frame_obligations(E, "name server", {"storage": {N + "__init__", N + "count", N + "lookup", N + "register", N + "set_metadata", N + "remove", N + "list", N + "yplookup",
                                                      "Pyro5/nameserver.py:NameServerDaemon.__exit__", "Pyro5/nameserver.py:NameServerDaemon.close", "Pyro5/nameserver.py:main"}})
