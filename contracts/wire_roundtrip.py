"""Lemma C06:wire-roundtrip -- over the CONTRACTS of the encoder (SendingMessage.__init__) and of the receiver (recv_stub), not over code:
whatever bytes the encoder's postcondition allows, put on a stream, are accepted by every receiver outcome the decoder's postcondition allows
only as the message that was encoded: same type, serializer id, sequence number, flags (COMPRESSED cleared), correlation id, the same
annotation ids and values in the same order, and the same payload (through zlib when the encoder compressed).

Both postconditions are taken from the contract objects (`ensures`), so a contract that is weakened until some changed code verifies again
stops carrying this lemma.  The proof is a chain of small steps; every step is an obligation discharged from an explicitly listed set of
facts (contract clauses, the assumed library facts, or steps proved before).  The inductions over the chunk index are discharged as
base / step obligations; the induction principle (and the instantiation of a proved universal fact at a term) is what is trusted."""
import z3
from pyvc.values import *
from pyvc.engine import State, Unsupported
from pyvc.registry import R
from specs.pystruct import zcompress, zdecompress, zvalid, ascii_enc, ascii_dec, is_ascii_s, parse_fmt
from contracts.protocol import wpos, bit, HEADER_FMT, VERSION, MAGIC, header_term, chunk_facts
from pyvc.stdlib import from_bytes_term
from pyvc.values import simple_slice


def header_units(vals):
    """the 40 element terms of struct.pack(HEADER_FMT, *vals) (same construction as specs.pystruct.pack_term; their equality is an obligation)"""
    us = []
    for (ch, n), v in zip(parse_fmt(HEADER_FMT), vals):
        if ch == "s":
            us.extend(z3.If(z3.Length(v) > i, v[i], z3.IntVal(0)) for i in range(n))
        else:
            us.extend((v / (256 ** (n - 1 - i))) % 256 for i in range(n))
    return us


@R.lemma("C06:wire-roundtrip", props=("C06",))
def wire_roundtrip(E):
    S = R.contracts["Pyro5.protocol.SendingMessage.__init__"]
    RS = R.contracts["Pyro5.protocol.recv_stub"]
    st = State()
    # ---- encoder side: the caller's view after `m = SendingMessage(msgtype, flags, seq, serializer_id, payload, annotations)` returned
    a = S.setup(E, st)
    req = [c for _l, c in S.requires(E, st, a)]
    st.assume(*req)
    old = st.fork()
    S.prepare_call(E, st, a, None)
    W = a["__W"]
    enc_post = dict(S.ensures(E, old, st, a, NONE))
    st.assume(*enc_post.values())
    n, keys, vals = W.n, W.keys, W.vals
    data = st.get(a["self"], "data").e
    payload = a["payload"].e
    mt, ser, seq = a["msgtype"].e, a["serializer_id"].e, a["seq"].e
    # the assumed zlib contract (specs/pystruct.py: zlib.compress), restated for the value the encoder compresses
    zfacts = [zvalid(zcompress(payload)), zdecompress(zcompress(payload)) == payload]
    # ---- the bytes travel: the receiver's stream holds them from its cursor on (C17: send_data appends exactly `data`, reads are in order)
    saved_variant = getattr(RS, "variant", None)
    RS.variant = "accept-any"
    try:
        b = RS.setup(E, st)
    finally:
        RS.variant = saved_variant
    conn = b["connection"]
    sock = st.get(conn, "sock")
    stream, pos0 = st.get(sock, "stream").e, st.get(sock, "pos").e
    travel = [z3.SubSeq(stream, pos0, z3.Length(data)) == data, pos0 + z3.Length(data) <= z3.Length(stream), pos0 >= 0]
    st.assume(*travel)
    # ---- receiver side: recv_stub(connection) returned normally
    old_r = st.fork()
    m = RS.result(E, st, b)
    st.set(sock, "pos", VInt(fresh("after_pos", IntS)))
    dec_post = dict(RS.ensures(E, old_r, st, b, m))
    st.assume(*dec_post.values())
    ann = st.get(m, "annotations")
    n2, keys2, vals2 = st.get(ann, "n").e, st.get(ann, "keys"), st.get(ann, "vals")
    _s, _st, _p, (tag_d, ver_d, typ_d, ser_d, flags_d, seq_d, dsz_d, asz_d, corr_d, _r, magic_d) = RS._hdr(old_r, b)

    f1, f2, has_corr, corrbytes = S.final_flags(E, old, a)
    comp = S.compressed(E, a)
    p2 = S.wire_payload(E, a)
    corr = z3.If(has_corr, corrbytes, bytes_const(b"\0" * 16))
    T = W.tile(n)
    P = RS.payload(st, conn, stream, pos0)          # the term the receiver's contract speaks about: stream[pos0+40 : pos0+40+asz+dsz], sizes as decoded

    def prove(label, goal, *facts):
        """one proof step: `goal` from exactly `facts`"""
        s = State()
        s.assume(*facts)
        E.oblige(s, "step[%s]" % label, goal, kind="lemma")
        if facts:
            E.oblige(s, "vacuity:facts-of-step[%s]" % label, z3.BoolVal(False), kind="vacuity")     # the facts a step starts from must be satisfiable
        return goal

    def induct(name, Pf, bound, inst, *facts):
        """P(0); P(j) => P(j+1) for 0 <= j < bound (fresh j; `inst(j)` = ground instances of definitions).  Returns q -> the instance
        0 <= q <= bound => P(q) of the conclusion."""
        prove(name + " [base]", Pf(z3.IntVal(0)), *facts)
        j = fresh("j_ind", IntS)
        prove(name + " [step]", Pf(j + 1), 0 <= j, j < bound, Pf(j), *(list(inst(j)) + list(facts)))
        return lambda q: z3.Implies(z3.And(0 <= q, q <= bound), Pf(q))

    def chunk_len(j):
        return 8 + z3.Length(vals[j])

    kq = z3.Int("k!encpost")
    enc_entries = enc_post["every annotation id is 4 ascii characters and every value is shorter than 4 GB"]

    def inst_of(q, t):
        """the instance of the universally quantified formula q (one bound variable) at the term t, computed syntactically"""
        assert z3.is_quantifier(q) and q.is_forall() and q.num_vars() == 1
        return z3.substitute_vars(q.body(), t)

    from contracts.protocol import walk_defs
    wdefs = walk_defs(P)

    def enc_defs(j):
        """instances at j of the definitions of tile / off (WireSpec) and of the encoder's post about entry j; plus the assumed contract of the ascii
        codec pair (specs/pystruct.py: len(ascii_enc(s)) == len(s); ascii_dec(ascii_enc(s)) == s for ascii s) at keys[j]"""
        return [inst_of(W.defs[2], j), inst_of(W.defs[3], j), inst_of(enc_entries, j),
                z3.Length(ascii_enc(keys[j])) == z3.Length(keys[j]),
                z3.Implies(is_ascii_s(keys[j]), ascii_dec(ascii_enc(keys[j])) == keys[j])]

    def walk_def(j):
        """instances of the definition of wpos (assume_walk) at j"""
        return [inst_of(wdefs[1], j), inst_of(wdefs[2], j)]
    base = [W.defs[0], W.defs[1], n >= 0, wdefs[0]]
    for d_ in list(W.defs) + list(wdefs):       # the definitions instantiated above are literally the ones the two contracts assume
        if not any(c.eq(d_) for c in st.pc):
            raise Unsupported("wire-roundtrip: a definition used by the proof is not among the assumptions of the contracts")
    for i_, fact in enumerate(base):
        E.oblige(st, "base fact %d is part of the state" % i_, fact, kind="lemma")

    def div_facts(v, nbytes):
        """v / 256^k == ((v / 256) / 256 ...) for k < nbytes: proved one by one (linear arithmetic with constant divisors), then usable as hints"""
        out = []
        qs = [v]
        for k in range(1, nbytes):
            qs.append(qs[-1] / 256)
        for k in range(2, nbytes):
            out.append(prove("(%s) / 256^%d is the %d-fold quotient by 256" % (v.sexpr()[:40], k, k), v / (256 ** k) == qs[k], v >= 0, *out))
        return out

    # ---- (A) arithmetic of the flags word and the sizes
    A_flags = prove("the flags word on the wire fits 16 bits", z3.And(f2 >= 0, f2 < 65536), *req)
    L0 = induct("off(j) >= 0", lambda j: W.off(j) >= 0, n, enc_defs, *base)
    L1 = induct("len(tile(j)) == off(j)", lambda j: z3.Length(W.tile(j)) == W.off(j), n, enc_defs, *base)
    sizes = [L0(n), L1(n), enc_post["size-within-limit"], n >= 0] + req
    # ---- (B) the header: 40 bytes, named h0..h39 (definitional extension: fresh names for the element terms of the packed header)
    hvals = [bytes_const(b"PYRO"), z3.IntVal(VERSION), mt, ser, f2, seq, z3.Length(p2), W.off(n), corr, z3.IntVal(0), z3.IntVal(MAGIC)]
    hu = header_units(hvals)
    hc = [fresh("h%d" % i, IntS) for i in range(40)]
    hdef = [hc[i] == hu[i] for i in range(40)]
    Hx = units_seq(hc)
    H = header_term(mt, ser, f2, seq, z3.Length(p2), W.off(n), corr)
    B_hdr = prove("the packed header is the 40 bytes h0..h39", H == Hx, *hdef)
    enc_data = enc_post["data==header++chunks++payload"]
    B_data = prove("the message is h0..h39 ++ chunks ++ payload", data == z3.Concat(Hx, T, p2), enc_data, B_hdr)
    B_len = prove("message length", z3.Length(data) == 40 + W.off(n) + z3.Length(p2), B_data, *sizes)
    # ---- (C) byte i of the receiver's stream (from its cursor) is header byte i
    C0 = prove("the first 40 bytes at the receiver's cursor are h0..h39", z3.SubSeq(stream, pos0, 40) == Hx, B_data, B_len, *(travel + sizes))
    C_bytes = []
    for i in range(40):
        C_bytes.append(z3.And(prove("stream byte %d is h%d" % (i, i), stream[pos0 + i] == hc[i], C0, pos0 >= 0), hdef[i]))
    # ---- (D) the decoded header fields are the encoded ones (pure arithmetic over the 40 bytes)
    D = {}
    dv_d, dv_a = div_facts(z3.Length(p2), 4), div_facts(W.off(n), 4)
    hb = {"type": (6, 7), "serializer id": (7, 8), "flags": (8, 10), "sequence number": (10, 12), "data size": (12, 16), "annotations size": (16, 20)}
    for label, got, want in (("type", typ_d, mt), ("serializer id", ser_d, ser), ("flags", flags_d, f2), ("sequence number", seq_d, seq),
                             ("data size", dsz_d, z3.Length(p2)), ("annotations size", asz_d, W.off(n))):
        D[label] = prove("decoded %s == encoded %s" % (label, label), got == want, A_flags,
                          *(C_bytes[hb[label][0]:hb[label][1]] + sizes + {"data size": dv_d, "annotations size": dv_a}.get(label, [])))
    # ---- (E) the receiver's payload area is chunks ++ payload
    E_P = prove("the receiver's payload area is the encoder's chunks ++ payload", P == z3.Concat(T, p2),
                D["data size"], D["annotations size"], B_data, B_len, *(travel + sizes))
    # ---- (F) chunk j sits at off(j)
    L2 = induct("tile(n-d) is a prefix of tile(n)", lambda d: z3.PrefixOf(W.tile(n - d), T), n, lambda d: enc_defs(n - d - 1), *base)
    jq = fresh("j_chunk", IntS)
    F_chunk = lambda j: z3.Implies(z3.And(0 <= j, j < n), z3.SubSeq(P, W.off(j), chunk_len(j)) == W.chunk(j))      # noqa: E731
    prove("chunk j of the payload area is the encoder's chunk j", F_chunk(jq),
          E_P, L1(jq), L1(jq + 1), L2(n - jq - 1), L0(jq), *(enc_defs(jq) + base))
    # ---- (G) the decoder's walk visits exactly the encoder's offsets
    lenb = lambda j: units_seq([(z3.Length(vals[j]) / (256 ** (3 - i))) % 256 for i in range(4)])      # noqa: E731
    G1 = lambda j: z3.Implies(z3.And(0 <= j, j < n), z3.SubSeq(P, W.off(j) + 4, 4) == lenb(j))      # noqa: E731
    prove("bytes 4..8 of chunk j spell len(value j)", G1(jq), F_chunk(jq), L0(jq), *enc_defs(jq))
    G2 = lambda j: z3.Implies(z3.And(0 <= j, j < n), from_bytes_term(simple_slice(P, W.off(j) + 4, W.off(j) + 8)) == z3.Length(vals[j]))      # noqa: E731
    prove("the decoder reads len(value j) there", G2(jq), G1(jq), L0(jq), *(enc_defs(jq) + div_facts(z3.Length(vals[jq]), 4)))
    L3 = induct("wpos(j) == off(j)", lambda j: wpos(P, j) == W.off(j), n, lambda j: enc_defs(j) + walk_def(j) + [G2(j)], *base)
    # ---- (H) the walk is strictly increasing, so it passes annotations_size exactly once
    dec_end = dec_post["chunks-end-exactly-at-annotations_size"]
    dec_nat = dec_post["annotation-count-is-natural"]
    L4a = induct("n < q => wpos(n) < wpos(q)", lambda q: z3.Implies(n < q, wpos(P, n) < wpos(P, q)), n2, walk_def, *base)
    L4b = induct("n' < q => wpos(n') < wpos(q)", lambda q: z3.Implies(n2 < q, wpos(P, n2) < wpos(P, q)), n, walk_def, dec_nat, *base)
    same_n = prove("the receiver sees as many annotations as were sent", n2 == n, dec_end, dec_nat, D["annotations size"], L3(n), L4a(n2), L4b(n), n >= 0)

    # ---- conclusions
    k = fresh("k_ann", IntS)
    dec_k = chunk_facts(P, keys2, vals2, k)                  # instance at k of the receiver's quantified post (checked against the state below)
    E.oblige(st, "the receiver's post about chunk k (instance used by the proof steps)", z3.Implies(z3.And(0 <= k, k < n2), dec_k), kind="lemma")
    ctx_k = [0 <= k, k < n, same_n, dec_k, L3(k), L3(k + 1), F_chunk(k), L0(k)] + enc_defs(k)
    K1 = prove("bytes 0..4 of chunk k are the ascii encoding of id k", z3.SubSeq(P, W.off(k), 4) == ascii_enc(keys[k]), *ctx_k)
    prove("annotation k arrives with the id it was sent with", keys2[k] == keys[k], K1, *ctx_k)
    prove("annotation k arrives with the value it was sent with", vals2[k] == vals[k], *ctx_k)
    fields_d = dec_post["fields==header"]
    prove("message type, serializer id and sequence number arrive unchanged",
          z3.And(st.get(m, "type").e == mt, st.get(m, "serializer_id").e == ser, st.get(m, "seq").e == seq), fields_d, D["type"], D["serializer id"], D["sequence number"])
    prove("flags arrive as sent (COMPRESSED is the codec's own bit and is cleared; CORR_ID is set exactly when a correlation id travels)",
          st.get(m, "flags").e == f2 - 2 * bit(f2, 1), fields_d, D["flags"])
    corr16 = z3.Length(corr) == 16
    E.oblige(st, "a correlation id is 16 bytes (encoder's context model)", corr16, kind="lemma")
    C_corr = prove("decoded correlation id == encoded correlation id", corr_d == corr, corr16, *C_bytes[20:36])
    prove("the correlation id arrives unchanged", st.get(m, "corr_id").e == st.get(a["self"], "corr_id").e, fields_d, C_corr, enc_post["corr_id"])
    A_comp = prove("the COMPRESSED bit on the wire says whether the encoder compressed", (bit(f2, 1) == 1) == comp, *req)
    body = prove("the receiver's data area is the bytes the encoder put after the chunks", simple_slice(P, asz_d, None) == p2,
                 E_P, D["annotations size"], L1(n), L0(n), n >= 0)
    prove("the payload arrives unchanged (decompressed again when the encoder compressed it)", st.get(m, "data").e == payload,
          dec_post["data"], body, D["flags"], A_comp, *zfacts)
    prove("exactly the encoded bytes are consumed", st.get(sock, "pos").e == pos0 + z3.Length(data),
          dec_post["consumed-exactly-one-message"], D["annotations size"], D["data size"], B_len)
    E.oblige(st, "vacuity:canary[wire-roundtrip]", z3.BoolVal(False), kind="canary")
