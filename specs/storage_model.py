"""Assumed contract Sigma of the name server's storage back-end (the mapping interface both MemoryStorage and SqlStorage
implement): abstract state sigma = (dom, uri, meta) over names; one contract, two implementations (DESIGN C14)."""
import z3
from pyvc.values import *
from pyvc.engine import Res, Unsupported
from pyvc.registry import R
from specs.opaque import may_raise

MetaS = z3.ArraySort(StrS, BoolS)


def new_storage(st, name="storage"):
    s = st.new_obj("storage", dom=z3.Const(name + "_dom", z3.ArraySort(StrS, BoolS)), uri=z3.Const(name + "_uri", z3.ArraySort(StrS, StrS)),
                   meta=z3.Const(name + "_meta", z3.ArraySort(StrS, MetaS)), card=z3.Const(name + "_card", IntS),
                   enum=z3.Const(name + "_enum", z3.ArraySort(IntS, StrS)))
    st.assume(st.get(s, "card") >= 0)
    return s


def _key(k):
    return k.val if isinstance(k, VOpt) else k


def _access(E, st, obj, op):
    c = getattr(E, "cur_contract", None)
    if c is not None and hasattr(c, "on_access"):
        c.on_access(E, st, obj, op)


@R.model("storage")
class StorageModel:
    """storage interface Sigma: __getitem__ -> (uri, meta) | KeyError; __setitem__(name, (uri, meta or None)); __delitem__ (KeyError
    if absent); __contains__; __len__ = |dom|; iteration enumerates dom; optimized_* return None (not optimised) or the filtered
    dict; everything(); remove_items(names) deletes exactly the present ones.  Every method may raise a storage error
    (NamingError wrapping a database error) without effect.  Each single method is atomic."""

    def getattr(self, E, st, obj, name):
        return None

    def contains(self, E, st, obj, item):
        _access(E, st, obj, "contains")
        if isinstance(item, VOpt):
            return z3.And(z3.Not(item.isnone), z3.Select(st.get(obj, "dom"), item.val.e))
        if not isinstance(item, VStr):
            return z3.BoolVal(False)
        return z3.Select(st.get(obj, "dom"), item.e)

    def m_getitem(self, E, st, obj, args, kw):
        _access(E, st, obj, "getitem")
        k = _key(args[0])
        out = []
        for s2, ok in E.branch(st, z3.Select(st.get(obj, "dom"), k.e)):
            if ok:
                out.append(Res(s2, VTuple([VStr(z3.Select(s2.get(obj, "uri"), k.e)), _Meta(z3.Select(s2.get(obj, "meta"), k.e))])))
            else:
                out.append(E.raise_(s2, "builtins.KeyError"))
        return out

    def m_setitem(self, E, st, obj, args, kw):
        _access(E, st, obj, "setitem")
        k, v = _key(args[0]), args[1]
        uri, meta = v.items
        m = meta.e if isinstance(meta, _Meta) else z3.K(StrS, z3.BoolVal(False))
        had = z3.Select(st.get(obj, "dom"), k.e)
        st.set(obj, "card", z3.If(had, st.get(obj, "card"), st.get(obj, "card") + 1))
        st.set(obj, "dom", z3.Store(st.get(obj, "dom"), k.e, z3.BoolVal(True)))
        st.set(obj, "uri", z3.Store(st.get(obj, "uri"), k.e, uri.e))
        st.set(obj, "meta", z3.Store(st.get(obj, "meta"), k.e, m))
        return [Res(st, NONE)]

    def m_delitem(self, E, st, obj, args, kw):
        _access(E, st, obj, "delitem")
        k = _key(args[0])
        out = []
        for s2, ok in E.branch(st, z3.Select(st.get(obj, "dom"), k.e)):
            if ok:
                s2.set(obj, "dom", z3.Store(s2.get(obj, "dom"), k.e, z3.BoolVal(False)))
                s2.set(obj, "card", s2.get(obj, "card") - 1)
                out.append(Res(s2, NONE))
            else:
                out.append(E.raise_(s2, "builtins.KeyError"))
        return out

    def m_len(self, E, st, obj, args, kw):
        _access(E, st, obj, "len")
        return [Res(st, VInt(st.get(obj, "card")))]

    def iter_spec(self, E, st, obj):
        _access(E, st, obj, "iter")
        enum = st.get(obj, "enum")
        return st.get(obj, "card"), (lambda j: VStr(z3.Select(enum, j)))

    def m_optimized(self, E, st, obj, args, kw):
        _access(E, st, obj, "optimized_query")
        s2 = st.fork()
        return [Res(st, NONE), Res(s2, VOpaque(fresh("optimized_result", U)))]

    def m_everything(self, E, st, obj, args, kw):
        _access(E, st, obj, "everything")
        return [Res(st, VOpaque(fresh("everything", U)))]

    def m_remove_items(self, E, st, obj, args, kw):
        _access(E, st, obj, "remove_items")
        st.set(obj, "dom", fresh("dom_after_remove", z3.ArraySort(StrS, BoolS)))
        st.set(obj, "card", fresh("card_after_remove", IntS))
        return [Res(st, NONE)]

    methods = {"__getitem__": m_getitem, "__setitem__": m_setitem, "__delitem__": m_delitem, "__len__": m_len,
               "optimized_prefix_list": m_optimized, "optimized_regex_list": m_optimized, "optimized_metadata_search": m_optimized,
               "everything": m_everything, "remove_items": m_remove_items}


class _Meta(V):
    """a set of tags as Array(String -> Bool)"""
    __slots__ = ("e",)

    def __init__(self, e):
        self.e = e


_nonempty = z3.Function("tagset_nonempty", MetaS, BoolS)
_Meta.truth_term = lambda self: _nonempty(self.e)


@R.method("_Meta", "issubset")
def meta_issubset(E, st, recv, args, kw):
    o = args[0]
    t = z3.Const("t!sub", StrS)
    if isinstance(o, _Meta):
        return [Res(st, VBool(z3.ForAll([t], z3.Implies(z3.Select(recv.e, t), z3.Select(o.e, t)))))]
    return [Res(st, VBool(fresh("issubset", BoolS)))]


@R.spec("syntax.binop")
def meta_binop(E, st, args, kw):
    a, b = args
    import ast as _ast
    if isinstance(a, _Meta) and isinstance(b, _Meta) and isinstance(kw["op"], _ast.BitAnd):
        t = z3.Const("t!and", StrS)
        return [Res(st, _Meta(z3.Lambda([t], z3.And(z3.Select(a.e, t), z3.Select(b.e, t)))))]
    return None


# string-keyed result dicts {name: uri} / {name: (uri, meta)} and lists of names ------------------------------------------

def new_sdict(st, name="listing", fresh_content=True):
    d = st.new_obj("sdict", dom=fresh(name + "_dom", z3.ArraySort(StrS, BoolS)) if fresh_content else z3.K(StrS, z3.BoolVal(False)),
                   uri=fresh(name + "_uri", z3.ArraySort(StrS, StrS)), meta=fresh(name + "_meta", z3.ArraySort(StrS, MetaS)),
                   card=fresh(name + "_card", IntS) if fresh_content else z3.IntVal(0), enum=fresh(name + "_enum", z3.ArraySort(IntS, StrS)))
    if fresh_content:
        st.assume(st.get(d, "card") >= 0)
    return d


@R.model("sdict")
class SDict:
    """dict keyed by names (result of list()/everything()): dom, uri, meta, card; keys()/items() views; item assignment"""

    def getattr(self, E, st, obj, name):
        return None

    def m_keys(self, E, st, obj, args, kw):
        return [Res(st, st.new_obj("nameset", dom=st.get(obj, "dom"), card=st.get(obj, "card"), enum=st.get(obj, "enum")))]

    def m_items(self, E, st, obj, args, kw):
        return [Res(st, st.new_obj("sdict_items", d=obj))]

    def m_setitem(self, E, st, obj, args, kw):
        k, v = _key(args[0]), args[1]
        had = z3.Select(st.get(obj, "dom"), k.e)
        st.set(obj, "card", z3.If(had, st.get(obj, "card"), st.get(obj, "card") + 1))
        st.set(obj, "dom", z3.Store(st.get(obj, "dom"), k.e, z3.BoolVal(True)))
        if isinstance(v, VTuple):
            st.set(obj, "uri", z3.Store(st.get(obj, "uri"), k.e, v.items[0].e))
            if isinstance(v.items[1], _Meta):
                st.set(obj, "meta", z3.Store(st.get(obj, "meta"), k.e, v.items[1].e))
        elif isinstance(v, VStr):
            st.set(obj, "uri", z3.Store(st.get(obj, "uri"), k.e, v.e))
        return [Res(st, NONE)]

    def contains(self, E, st, obj, item):
        item = _key(item)
        return z3.Select(st.get(obj, "dom"), item.e)

    methods = {"keys": m_keys, "items": m_items, "__setitem__": m_setitem}


@R.model("sdict_items")
class SDictItems:
    """items() view of an sdict: enumerates (name, (uri, meta)) for the names enum[0..card)"""

    def getattr(self, E, st, obj, name):
        return None

    def iter_spec(self, E, st, obj):
        d = st.get(obj, "d")
        enum, uri, meta = st.get(d, "enum"), st.get(d, "uri"), st.get(d, "meta")

        def elem(j):
            n = z3.Select(enum, j)
            return VTuple([VStr(n), VTuple([VStr(z3.Select(uri, n)), _Meta(z3.Select(meta, n))])])
        return st.get(d, "card"), elem

    methods = {}


@R.model("nameset")
class NameSet:
    """a list of distinct names (list(d.keys())): membership by dom, length card; remove(x) deletes a present name"""

    def getattr(self, E, st, obj, name):
        return None

    def contains(self, E, st, obj, item):
        item = _key(item)
        return z3.Select(st.get(obj, "dom"), item.e) if isinstance(item, VStr) else z3.BoolVal(False)

    def to_list(self, E, st, obj):
        return [Res(st, st.new_obj("nameset", dom=st.get(obj, "dom"), card=st.get(obj, "card"), enum=st.get(obj, "enum")))]

    def m_remove(self, E, st, obj, args, kw):
        k = _key(args[0])
        out = []
        for s2, ok in E.branch(st, z3.Select(st.get(obj, "dom"), k.e)):
            if ok:
                s2.set(obj, "dom", z3.Store(s2.get(obj, "dom"), k.e, z3.BoolVal(False)))
                s2.set(obj, "card", s2.get(obj, "card") - 1)
                out.append(Res(s2, NONE))
            else:
                out.append(E.raise_(s2, "builtins.ValueError"))
        return out

    def m_len(self, E, st, obj, args, kw):
        return [Res(st, VInt(st.get(obj, "card")))]

    methods = {"remove": m_remove, "__len__": m_len}


def _everything(self, E, st, obj, args, kw):
    _access(E, st, obj, "everything")
    d = st.new_obj("sdict", dom=st.get(obj, "dom"), uri=st.get(obj, "uri"), meta=st.get(obj, "meta"), card=st.get(obj, "card"), enum=st.get(obj, "enum"))
    return [Res(st, d)]


def _optimized(self, E, st, obj, args, kw):
    _access(E, st, obj, "optimized_query")
    s2 = st.fork()
    return [Res(st, NONE), Res(s2, new_sdict(s2, "optimized_result"))]


def _remove_items(self, E, st, obj, args, kw):
    _access(E, st, obj, "remove_items")
    items = args[0]
    x = z3.Const("x!rm", StrS)
    if isinstance(items, VObj) and items.cls == "nameset":
        idom = st.get(items, "dom")
        st.set(obj, "dom", z3.Lambda([x], z3.And(z3.Select(st.get(obj, "dom"), x), z3.Not(z3.Select(idom, x)))))
    else:
        st.set(obj, "dom", fresh("dom_after_remove", z3.ArraySort(StrS, BoolS)))
    st.set(obj, "card", fresh("card_after_remove", IntS))
    return [Res(st, NONE)]


StorageModel.methods.update({"everything": _everything, "optimized_prefix_list": _optimized, "optimized_regex_list": _optimized,
                             "optimized_metadata_search": _optimized, "remove_items": _remove_items})
