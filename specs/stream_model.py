"""Model of Daemon.streaming_responses (C10): T : stream id -> (owner connection | None, created, linger start, iterator), a virtual clock
behind time.time(), server-side iterators as ghost sequences (`next` = item at the iterator's position, position + 1; or an exception), and
`list(T)` as an enumeration of the key set at that moment."""
import z3
from pyvc.values import *
from pyvc.engine import Res, Unsupported
from pyvc.registry import R
from specs.opaque import box, may_raise

DomS = z3.ArraySort(StrS, BoolS)
item_of = z3.Function("stream_item", U, IntS, U)             # item number j the server-side iterator yields
stops_at = z3.Function("iterator_ends_at", U, IntS)          # position at which next() does not yield (StopIteration or an error raised by the generator)
nonempty = z3.Function("table_nonempty", DomS, BoolS)
KSTAR = z3.Const("any_stream_id", StrS)                      # the arbitrary stream the frame conditions are stated for (free constant = for all ids)


def new_table(st, name="streams"):
    t = st.new_obj("stream_table", dom=z3.Const(name + "_dom", DomS), owner=z3.Const(name + "_owner", z3.ArraySort(StrS, U)),
                   created=z3.Const(name + "_created", z3.ArraySort(StrS, RealS)), linger=z3.Const(name + "_linger", z3.ArraySort(StrS, RealS)),
                   it=z3.Const(name + "_iter", z3.ArraySort(StrS, U)))
    return t


def entry(st, t, k):
    """(present, owner, created, linger, iterator) of key k in the table state of st"""
    return (z3.Select(st.get(t, "dom"), k), z3.Select(st.get(t, "owner"), k), z3.Select(st.get(t, "created"), k),
            z3.Select(st.get(t, "linger"), k), z3.Select(st.get(t, "it"), k))


def same_entry(st_a, st_b, t, k):
    a, b = entry(st_a, t, k), entry(st_b, t, k)
    return z3.And(a[0] == b[0], z3.Implies(a[0], z3.And(a[1] == b[1], a[2] == b[2], a[3] == b[3], a[4] == b[4])))


def new_iters(st):
    it = st.new_obj("iterators", pos=z3.Const("iterator_pos", z3.ArraySort(U, IntS)))
    st.ghost["iters"] = it
    return it


def _keyterm(k):
    if isinstance(k, VOpt):
        k = k.val
    if isinstance(k, VStr):
        return k.e
    if isinstance(k, VOpaque):
        return unbox_str(k.e)
    raise Unsupported("stream table key %r" % (k,))


def _tuple_of(st, t, k):
    _, o, c, l, i = entry(st, t, k)
    return VTuple([VOpaque(o), VReal(c), VReal(l), VOpaque(i)])


def _real(v):
    if isinstance(v, VReal):
        return v.e
    if isinstance(v, VInt):
        return z3.ToReal(v.e)
    raise Unsupported("timestamp %r" % (v,))


@R.model("stream_table")
class StreamTable:
    """dict semantics on string keys over five arrays; `if T:` is an uninterpreted non-emptiness predicate of the key set (true whenever some
    key is present - instantiated at the key in question)"""

    def getattr(self, E, st, obj, name):
        return None

    def truth(self, E, st, obj):
        d = st.get(obj, "dom")
        st.assume(z3.Implies(z3.Select(d, KSTAR), nonempty(d)))
        return nonempty(d)

    def contains(self, E, st, obj, item):
        return z3.Select(st.get(obj, "dom"), _keyterm(item))

    def m_getitem(self, E, st, obj, args, kw):
        k = _keyterm(args[0])
        out = []
        for s2, ok in E.branch(st, z3.Select(st.get(obj, "dom"), k)):
            out.append(Res(s2, _tuple_of(s2, obj, k)) if ok else E.raise_(s2, "builtins.KeyError"))
        return out

    def m_get(self, E, st, obj, args, kw):
        k = _keyterm(args[0])
        out = []
        for s2, ok in E.branch(st, z3.Select(st.get(obj, "dom"), k)):
            out.append(Res(s2, _tuple_of(s2, obj, k)) if ok else Res(s2, args[1] if len(args) > 1 else NONE))
        return out

    def m_setitem(self, E, st, obj, args, kw):
        k = _keyterm(args[0])
        v = args[1]
        if not isinstance(v, VTuple) or len(v.items) != 4:
            raise Unsupported("stream table entry %r" % (v,))
        o, c, l, i = v.items
        st.set(obj, "dom", z3.Store(st.get(obj, "dom"), k, z3.BoolVal(True)))
        st.set(obj, "owner", z3.Store(st.get(obj, "owner"), k, box(o)))
        st.set(obj, "created", z3.Store(st.get(obj, "created"), k, _real(c)))
        st.set(obj, "linger", z3.Store(st.get(obj, "linger"), k, _real(l)))
        st.set(obj, "it", z3.Store(st.get(obj, "it"), k, box(i)))
        st.event("table_write", k)
        return [Res(st, NONE)]

    def m_delitem(self, E, st, obj, args, kw):
        k = _keyterm(args[0])
        out = []
        for s2, ok in E.branch(st, z3.Select(st.get(obj, "dom"), k)):
            if ok:
                s2.set(obj, "dom", z3.Store(s2.get(obj, "dom"), k, z3.BoolVal(False)))
                s2.event("table_delete", k)
                out.append(Res(s2, NONE))
            else:
                out.append(E.raise_(s2, "builtins.KeyError"))
        return out

    def m_pop(self, E, st, obj, args, kw):
        """T.pop(k, default): removes the entry and returns it if present, else returns the default (KeyError without a default)"""
        k = _keyterm(args[0])
        out = []
        for s2, ok in E.branch(st, z3.Select(st.get(obj, "dom"), k)):
            if ok:
                v = _tuple_of(s2, obj, k)
                s2.set(obj, "dom", z3.Store(s2.get(obj, "dom"), k, z3.BoolVal(False)))
                s2.event("table_delete", k)
                out.append(Res(s2, v))
            elif len(args) > 1:
                out.append(Res(s2, args[1]))
            else:
                out.append(E.raise_(s2, "builtins.KeyError"))
        return out

    def m_keys(self, E, st, obj, args, kw):
        return [Res(st, obj)]

    def to_list(self, E, st, obj):
        return KeySnapshot(st.get(obj, "dom"))

    methods = {"__getitem__": m_getitem, "get": m_get, "__setitem__": m_setitem, "__delitem__": m_delitem, "keys": m_keys, "pop": m_pop}


_snap_count = [0]


class KeySnapshot(V):
    """list(T): n distinct keys key(0..n) enumerating exactly the key set at the time of the snapshot; pos is the inverse"""
    __slots__ = ("dom", "n", "key", "pos")

    def __init__(self, dom):
        _snap_count[0] += 1
        i = _snap_count[0]
        self.dom = dom
        self.n = z3.Const("snapshot%d_len" % i, IntS)
        self.key = z3.Function("snapshot%d_key" % i, IntS, StrS)
        self.pos = z3.Function("snapshot%d_pos" % i, StrS, IntS)

    def facts(self):
        j = z3.Const("j", IntS)
        k = z3.Const("k", StrS)
        return [self.n >= 0,
                z3.ForAll([j], z3.Implies(z3.And(0 <= j, j < self.n), z3.And(z3.Select(self.dom, self.key(j)), self.pos(self.key(j)) == j)), patterns=[self.key(j)]),
                z3.ForAll([k], z3.Implies(z3.Select(self.dom, k), z3.And(0 <= self.pos(k), self.pos(k) < self.n, self.key(self.pos(k)) == k)), patterns=[self.pos(k)]),
                # the instance for the stream the frame conditions talk about (the quantifier-free stage needs it spelled out)
                z3.Implies(z3.Select(self.dom, KSTAR), z3.And(0 <= self.pos(KSTAR), self.pos(KSTAR) < self.n, self.key(self.pos(KSTAR)) == KSTAR))]

    def iter_spec_v(self, E, st):
        def elem(j):
            # instance of the enumeration axiom at the current index
            return VStr(self.key(j))
        return (self.n, elem, self.facts())

    def fresh_like(self, name):
        return self


_prev_list = R.specs.get("builtins.list")


@R.spec("builtins.list", doc="list(<stream table>) / list(<stream table>.keys()): snapshot of the key set")
def b_list(E, st, args, kw):
    if args and isinstance(args[0], VObj) and args[0].cls == "stream_table":
        snap = KeySnapshot(st.get(args[0], "dom"))
        st.ghost["last_snapshot"] = snap
        return [Res(st, snap)]
    prev = _prev_list
    if prev is None:
        raise Unsupported("list(%r)" % (args,))
    return prev(E, st, args, kw)


@R.spec("time.time", doc="virtual clock: a real that never decreases and is positive")
def time_time(E, st, args, kw):
    t = fresh("now", RealS)
    prev = st.ghost.get("clock")
    if prev is not None:
        st.assume(t >= prev.e)
    st.assume(t > 0)
    st.ghost["clock"] = VReal(t)
    st.event("clock", t)
    return [Res(st, VReal(t))]


@R.spec("builtins.next", doc="next(it) on a server-side iterator: the item at its position (position + 1), or - at the position where it ends - "
                             "StopIteration or whatever Exception the generator raises (user code)")
def b_next(E, st, args, kw):
    it = args[0]
    if not isinstance(it, VOpaque):
        raise Unsupported("next(%r)" % (it,))
    iters = st.ghost.get("iters")
    if iters is None:
        raise Unsupported("next() without iterator ghost state")
    pos = z3.Select(st.get(iters, "pos"), it.e)
    st.event("next", it.e, pos)
    out = []
    for s2, more in E.branch(st, pos < stops_at(it.e)):
        if more:
            s2.set(iters, "pos", z3.Store(s2.get(iters, "pos"), it.e, pos + 1))
            out.append(Res(s2, VOpaque(item_of(it.e, pos))))
        else:
            out.append(may_raise(E, s2, "generator_ends"))
    return out
