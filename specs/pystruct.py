"""Assumed contracts of struct / zlib / uuid / ascii codecs / Pyro5.config / the thread-local call context.
struct layouts are given concretely (big-endian byte sequences); zlib is a pair of uninterpreted functions with the
round-trip axiom; everything is validated against the real libraries in replay/c06.py (bounded)."""
import re
import z3
from pyvc.values import *
from pyvc.engine import Res
from pyvc.registry import R

_FMT = re.compile(r"(\d*)([sHBI])")
_SIZE = {"H": 2, "B": 1, "I": 4}


def parse_fmt(fmt):
    assert fmt[0] == "!"
    out = []
    for cnt, ch in _FMT.findall(fmt[1:]):
        if ch == "s":
            out.append(("s", int(cnt or 1)))
        else:
            for _ in range(int(cnt or 1)):
                out.append((ch, _SIZE[ch]))
    return out


def fmt_size(fmt):
    return sum(n for _c, n in parse_fmt(fmt))


def be_units(v, n):
    return [z3.Unit((v / (256 ** (n - 1 - i))) % 256) for i in range(n)]


def pack_term(fmt, vals):
    """(z3 Seq term, list of range conditions) for struct.pack(fmt, *vals); vals are z3 terms"""
    parts = []
    ranges = []
    for (ch, n), v in zip(parse_fmt(fmt), vals):
        if ch == "s":
            ln = z3.Length(v)
            if z3.is_true(z3.simplify(ln == n)):
                parts.append(v)
            else:
                parts.extend(z3.Unit(z3.If(ln > i, v[i], z3.IntVal(0))) for i in range(n))
        else:
            ranges.append(z3.And(v >= 0, v < 256 ** n))
            parts.extend(be_units(v, n))
    return z3.Concat(*parts), ranges


def be_int(b, off, n):
    return z3.Sum([b[off + i] * (256 ** (n - 1 - i)) for i in range(n)])


def unpack_units(fmt, units):
    """list of z3 terms for struct.unpack(fmt, bytes(units)), units = element terms"""
    out = []
    off = 0
    for ch, n in parse_fmt(fmt):
        us = units[off:off + n]
        if ch == "s":
            out.append(("s", units_seq(tuple(us))))
        else:
            out.append((ch, z3.Sum([u * (256 ** (n - 1 - i)) for i, u in enumerate(us)]) if n > 1 else us[0]))
        off += n
    return out


def unpack_terms(fmt, b):
    """list of z3 terms for struct.unpack(fmt, b) (caller guarantees len(b) == size)"""
    out = []
    off = 0
    for ch, n in parse_fmt(fmt):
        if ch == "s":
            out.append(("s", z3.SubSeq(b, off, n)))
        else:
            out.append((ch, be_int(b, off, n)))
        off += n
    return out


def _const_str(v):
    s = z3.simplify(v.e)
    if not z3.is_string_value(s):
        raise Unsupported("struct format must be a constant")
    return s.as_string()


@R.spec("struct.calcsize", doc="size of a '!'-format made of s/H/B/I items")
def s_calcsize(E, st, args, kw):
    return [Res(st, VInt(fmt_size(_const_str(args[0]))))]


@R.spec("struct.pack", doc="big-endian layout; an int outside its field range raises struct.error; 'Ns' pads with NUL / truncates")
def s_pack(E, st, args, kw):
    fmt = _const_str(args[0])
    items = parse_fmt(fmt)
    if len(items) != len(args) - 1:
        return [E.raise_(st, "struct.error")]
    vals = []
    for (ch, n), a in zip(items, args[1:]):
        if ch == "s":
            if not isinstance(a, VBytes):
                raise Unsupported("struct.pack 's' with %r" % (a,))
            vals.append(a.e)
        else:
            if not isinstance(a, VInt):
                raise Unsupported("struct.pack int with %r" % (a,))
            vals.append(a.e)
    term, ranges = pack_term(fmt, vals)
    out = []
    for s2, ok in E.branch(st, z3.And(ranges) if ranges else z3.BoolVal(True)):
        if ok:
            out.append(Res(s2, VBytes(term)))
        else:
            out.append(E.raise_(s2, "struct.error"))
    return out


def assume_bytes(st, b, n):
    st.assume(*[z3.And(b[i] >= 0, b[i] <= 255) for i in range(n)])


@R.spec("struct.unpack", doc="big-endian layout; wrong buffer length raises struct.error; buffer elements are bytes (0..255)")
def s_unpack(E, st, args, kw):
    fmt = _const_str(args[0])
    b = args[1]
    size = fmt_size(fmt)
    if isinstance(b, VBytes) and b.units is not None:
        if len(b.units) != size:
            return [E.raise_(st, "struct.error")]
        st.assume(*[z3.And(u >= 0, u <= 255) for u in b.units])
        vals = []
        off = 0
        for ch, n in parse_fmt(fmt):
            us = b.units[off:off + n]
            if ch == "s":
                vals.append(VBytes.from_units(us))
            else:
                vals.append(VInt(z3.Sum([u * (256 ** (n - 1 - i)) for i, u in enumerate(us)]) if n > 1 else us[0]))
            off += n
        return [Res(st, VTuple(vals))]
    out = []
    for s2, ok in E.branch(st, z3.Length(b.e) == size):
        if not ok:
            out.append(E.raise_(s2, "struct.error"))
            continue
        assume_bytes(s2, b.e, size)
        vals = []
        for ch, t in unpack_terms(fmt, b.e):
            vals.append(VBytes(t) if ch == "s" else VInt(t))
        out.append(Res(s2, VTuple(vals)))
    return out


zcompress = z3.Function("zlib_compress", BytesS, BytesS)
zdecompress = z3.Function("zlib_decompress", BytesS, BytesS)     # the data a complete zlib stream holds
zvalid = z3.Function("zlib_valid", BytesS, BoolS)                # the bytes are EXACTLY one complete zlib stream
zstream_len = z3.Function("zlib_stream_len", BytesS, IntS)       # length of the complete zlib stream the bytes START with, -1 if they do not start with one


def zlib_facts(b):
    """b is exactly one stream iff it starts with a complete stream that is all of it"""
    n = zstream_len(b)
    return [z3.Or(n == -1, z3.And(n >= 1, n <= z3.Length(b))), zvalid(b) == (n == z3.Length(b)),
            z3.Implies(n >= 0, z3.And(zvalid(z3.SubSeq(b, 0, n)), zstream_len(z3.SubSeq(b, 0, n)) == n))]


@R.spec("zlib.compress", doc="uninterpreted c = zlib_compress(b): exactly one complete stream (zlib_valid(c)) with zlib_decompress(c) == b")
def z_compress(E, st, args, kw):
    b = args[0]
    c = zcompress(b.e)
    st.assume(zvalid(c), zdecompress(c) == b.e)
    return [Res(st, VBytes(c))]


@R.spec("zlib.decompress", doc="zlib.decompress(b): when b STARTS with a complete zlib stream, the data of that stream - whatever follows the stream is silently ignored "
                               "(CPython behaviour, validated by replay/c06.py); otherwise zlib.error")
def z_decompress(E, st, args, kw):
    b = args[0]
    st.assume(*zlib_facts(b.e))
    n = zstream_len(b.e)
    out = []
    for s2, ok in E.branch(st, n >= 0):
        if ok:
            out.append(Res(s2, VBytes(zdecompress(z3.SubSeq(b.e, 0, n)))))
        else:
            out.append(E.raise_(s2, "zlib.error"))
    return out


@R.spec("zlib.decompressobj", doc="a streaming decompressor object (model zlib.Decompress)")
def z_decompressobj(E, st, args, kw):
    return [Res(st, st.new_obj("zlib.Decompress", eof=VBool(False), unused_data=VBytes(z3.Empty(BytesS))))]


@R.model("zlib.Decompress")
class ZDecompress:
    """zlib.decompressobj(), first call of decompress(b[, max_length]): if b starts with a complete stream: returns its data (the first max_length bytes of it when
    max_length > 0 cuts it short), .eof becomes True and .unused_data the bytes after the stream; if b is only the beginning of a stream: returns the data decoded so far
    (uninterpreted), .eof stays False, .unused_data empty; corrupt data raises zlib.error"""

    def getattr(self, E, st, obj, name):
        return None

    def m_decompress(self, E, st, obj, args, kw):
        b = args[0]
        mx = args[1] if len(args) > 1 else kw.get("max_length", VInt(0))
        st.assume(*zlib_facts(b.e))
        n = zstream_len(b.e)
        out = []
        for s2, ok in E.branch(st, n >= 0):
            if not ok:
                out.append(E.raise_(s2.fork(), "zlib.error"))
                s2.set(obj, "eof", VBool(False))
                out.append(Res(s2, VBytes(fresh("partially_decompressed", BytesS))))
                continue
            full = zdecompress(z3.SubSeq(b.e, 0, n))
            for s3, unlimited in E.branch(s2, z3.Or(mx.e <= 0, z3.Length(full) <= mx.e)):
                if unlimited:
                    s3.set(obj, "eof", VBool(True))
                    s3.set(obj, "unused_data", VBytes(z3.SubSeq(b.e, n, z3.Length(b.e) - n)))
                out.append(Res(s3, VBytes(full if unlimited else z3.SubSeq(full, 0, mx.e))))
        return out

    methods = {"decompress": m_decompress}


ascii_enc = z3.Function("ascii_enc", StrS, BytesS)
ascii_dec = z3.Function("ascii_dec", BytesS, StrS)
is_ascii_s = z3.Function("is_ascii_s", StrS, BoolS)
is_ascii_b = z3.Function("is_ascii_b", BytesS, BoolS)


def ascii_enc_facts(s):
    b = ascii_enc(s)
    return [z3.Length(b) == z3.Length(s), z3.Implies(is_ascii_s(s), z3.And(ascii_dec(b) == s, is_ascii_b(b)))]


def ascii_dec_facts(b):
    s = ascii_dec(b)
    return [z3.Length(s) == z3.Length(b), z3.Implies(is_ascii_b(b), z3.And(ascii_enc(s) == b, is_ascii_s(s)))]


_utf8 = z3.Function("utf8_encode", StrS, BytesS)


@R.spec("spec.str_encode", doc="s.encode('ascii'): raises UnicodeEncodeError unless is_ascii_s(s); else ascii_enc(s), same length, "
        "ascii_dec inverse.  Other codecs: opaque bytes")
def str_encode(E, st, args, kw):
    s = args[0]
    codec = _const_str(args[1]) if len(args) > 1 else "utf-8"
    if codec == "utf-8":
        # a function of the text; fails only for text that is not valid unicode (lone surrogates)
        s2 = st.fork()
        return [Res(st, VBytes(_utf8(s.e))), E.raise_(s2, "builtins.UnicodeEncodeError")]
    if codec != "ascii":
        return [Res(st, VBytes(fresh("encoded", BytesS)))]
    if len(args) > 2 or "errors" in kw:
        # an error handler (backslashreplace / replace / ignore ...) is given: never raises, the result is some ASCII byte string
        b = fresh("ascii_escaped", BytesS)
        st.assume(is_ascii_b(b), *ascii_dec_facts(b))
        return [Res(st, VBytes(b))]
    out = []
    for s2, ok in E.branch(st, is_ascii_s(s.e)):
        if ok:
            s2.assume(*ascii_enc_facts(s.e))
            out.append(Res(s2, VBytes(ascii_enc(s.e))))
        else:
            out.append(E.raise_(s2, "builtins.UnicodeEncodeError"))
    return out


@R.spec("spec.bytes_decode", doc="b.decode('ascii'): raises UnicodeDecodeError unless is_ascii_b(b); else ascii_dec(b)")
def bytes_decode(E, st, args, kw):
    b = args[0]
    codec = _const_str(args[1]) if len(args) > 1 else "utf-8"
    if codec == "utf-8":
        t = z3.Function("utf8_decode", BytesS, StrS)(b.e)
        s2 = st.fork()
        st.assume(_utf8(t) == b.e)         # on success the bytes are the UTF-8 encoding of the text
        return [Res(st, VStr(t)), E.raise_(s2, "builtins.UnicodeDecodeError")]
    if codec != "ascii":
        out = [Res(st, VStr(fresh("decoded", StrS)))]
        s2 = st.fork()
        out.append(E.raise_(s2, "builtins.UnicodeDecodeError"))
        return out
    out = []
    for s2, ok in E.branch(st, is_ascii_b(b.e)):
        if ok:
            s2.assume(*ascii_dec_facts(b.e))
            out.append(Res(s2, VStr(ascii_dec(b.e))))
        else:
            out.append(E.raise_(s2, "builtins.UnicodeDecodeError"))
    return out


R.glob("Pyro5.config.COMPRESSION", VBool(z3.Const("config_COMPRESSION", BoolS)), "configuration item: arbitrary fixed Bool")
R.glob("Pyro5.config.MAX_MESSAGE_SIZE", VInt(z3.Const("config_MAX_MESSAGE_SIZE", IntS)), "configuration item: arbitrary fixed Int")


def new_context(st, name="ctx"):
    """the thread-local call context object (Pyro5.callcontext.current_context) with the fields the code reads/writes"""
    uid = st.new_obj("uuid.UUID", bytes=VBytes(z3.Const(name + "_corr_bytes", BytesS)))
    st.assume(z3.Length(st.get(uid, "bytes").e) == 16)
    ctx = st.new_obj("callcontext", correlation_id=VOpt(z3.Const(name + "_corr_is_none", BoolS), uid))
    return ctx


@R.model("uuid.UUID")
class UUIDModel:
    """uuid.UUID: truthy object with a 16-byte .bytes"""

    def getattr(self, E, st, obj, name):
        return None
    methods = {}


@R.model("callcontext")
class CallContextModel:
    """Pyro5.callcontext.current_context: plain attribute container (thread-local; one thread in view)"""

    def getattr(self, E, st, obj, name):
        return None
    methods = {}
