"""Assumed contract of the OS socket object (DESIGN C17): ghost inbound `stream` with cursor `pos`, ghost outbound `out`.
Everything here is an assumption about external code; it is validated against a scripted fake in replay/ (bounded)."""
import z3
from pyvc.values import *
from pyvc.engine import Res
from pyvc.registry import R
from pyvc import classes as CL


def new_socket(E, st, name="sock"):
    sock = st.new_obj(
        "socket.socket",
        stream=VBytes(z3.Const(name + "_stream", BytesS)),
        pos=VInt(z3.Const(name + "_pos0", IntS)),
        out=VBytes(z3.Const(name + "_out0", BytesS)),
        eof=VBool(False), fatal=VBool(False),
        has_getpeercert=VBool(z3.Const(name + "_is_ssl", BoolS)),
        timeout_is_none=VBool(z3.Const(name + "_blocking", BoolS)),
        send_raised=VBool(False),
    )
    p = st.get(sock, "pos").e
    st.assume(p >= 0, p <= z3.Length(st.get(sock, "stream").e))
    return sock


def _os_error(E, st, sock):
    """raise of socket.error: some OSError subclass other than socket.timeout, with an int errno and non-empty args"""
    exc = E.new_sym_exc(st, "builtins.OSError", "oserr", also_not=["builtins.TimeoutError"])
    errno = VInt(fresh("errno", IntS))
    st.set(exc, "errno", errno)
    st.set(exc, "args", VTuple([errno, VStr(fresh("strerror", StrS))]))
    return exc


@R.model("socket.socket")
class SocketModel:
    """socket.socket: recv(n[,flags]) returns c with 0<=len(c)<=n, c == stream[pos:pos+len(c)], pos += len(c)
    (len(c)==0 with n>0 = end of stream) | raises socket.timeout | raises socket.error(errno:int, args non-empty), cursor
    unmoved.  send(d) returns 0<=k<=len(d) and appends d[:k] to out | raises as above.  sendall(d) appends d | raises after
    having appended some prefix of d.  gettimeout() is None iff the socket is blocking."""

    def getattr(self, E, st, obj, name):
        return None

    def hasattr(self, E, st, obj, name):
        if name == "getpeercert":
            return st.get(obj, "has_getpeercert").e
        return None

    def m_recv(self, E, st, sock, args, kw):
        n = args[0]
        E.oblige(st, "pre@sock.recv[n>=0]", n.e >= 0, kind="pre")
        out = []
        # (1) data / end of stream
        s1 = st.fork()
        c = fresh("chunk", BytesS)
        pos = s1.get(sock, "pos").e
        stream = s1.get(sock, "stream").e
        ln = z3.Length(c)
        s1.assume(ln >= 0, ln <= n.e, pos + ln <= z3.Length(stream), c == z3.SubSeq(stream, pos, ln))
        s1.set(sock, "pos", VInt(pos + ln))
        s1.set(sock, "eof", VBool(z3.Or(s1.get(sock, "eof").e, z3.And(ln == 0, n.e > 0))))
        out.append(Res(s1, VBytes(c)))
        # (2) timeout
        s2 = st.fork()
        out.append(Res(s2, exc=E.new_exc(s2, "builtins.TimeoutError", [VStr("timed out")])))
        # (3) socket.error with an errno
        s3 = st.fork()
        exc = _os_error(E, s3, sock)
        in_retry = E.contains(s3.get(exc, "errno"), E.qualified("Pyro5.socketutil.ERRNO_RETRIES"), s3)
        s3.set(sock, "fatal", VBool(z3.Or(s3.get(sock, "fatal").e, z3.Not(in_retry))))
        out.append(Res(s3, exc=exc))
        return out

    def m_send(self, E, st, sock, args, kw):
        d = args[0]
        out = []
        s1 = st.fork()
        k = fresh("sent", IntS)
        s1.assume(k >= 0, k <= z3.Length(d.e))
        s1.set(sock, "out", VBytes(z3.Concat(s1.get(sock, "out").e, z3.SubSeq(d.e, 0, k))))
        out.append(Res(s1, VInt(k)))
        s2 = st.fork()
        out.append(Res(s2, exc=E.new_exc(s2, "builtins.TimeoutError", [VStr("timed out")])))
        s3 = st.fork()
        out.append(Res(s3, exc=_os_error(E, s3, sock)))
        return out

    def m_sendall(self, E, st, sock, args, kw):
        d = args[0]
        out = []
        s1 = st.fork()
        s1.set(sock, "out", VBytes(z3.Concat(s1.get(sock, "out").e, d.e)))
        out.append(Res(s1, NONE))
        for mk in (lambda s: E.new_exc(s, "builtins.TimeoutError", [VStr("timed out")]), lambda s: _os_error(E, s, sock)):
            s2 = st.fork()
            k = fresh("sent_before_error", IntS)
            s2.assume(k >= 0, k <= z3.Length(d.e))
            s2.set(sock, "out", VBytes(z3.Concat(s2.get(sock, "out").e, z3.SubSeq(d.e, 0, k))))
            out.append(Res(s2, exc=mk(s2)))
        return out

    def m_gettimeout(self, E, st, sock, args, kw):
        return [Res(st, VOpt(st.get(sock, "timeout_is_none").e, VReal(fresh("timeout", RealS))))]

    methods = {"recv": m_recv, "send": m_send, "sendall": m_sendall, "gettimeout": m_gettimeout}


@R.model("generator:retrydelays")
class RetryDelays:
    """socketutil.__retrydelays(): an endless generator of non-negative floats (never raises StopIteration)"""

    def getattr(self, E, st, obj, name):
        return None

    def m_next(self, E, st, obj, args, kw):
        d = fresh("delay", RealS)
        st.assume(d >= 0)
        return [Res(st, VReal(d))]

    methods = {"__next__": m_next}


@R.spec("Pyro5.socketutil.__retrydelays", doc="returns the endless delay generator (repo function, not under contract: "
        "its values are only passed to time.sleep)")
def retrydelays(E, st, args, kw):
    return [Res(st, st.new_obj("generator:retrydelays"))]


_ERRNO_RETRIES = VSet(z3.Const("ERRNO_RETRIES", z3.ArraySort(IntS, BoolS)), z3.Const("ERRNO_RETRIES_card", IntS), IntS)
R.glob("Pyro5.socketutil.ERRNO_RETRIES", _ERRNO_RETRIES, "the retryable errno list: an arbitrary fixed set of ints")
R.glob("Pyro5.socketutil.USE_MSG_WAITALL", VBool(z3.Const("USE_MSG_WAITALL", BoolS)), "platform flag: arbitrary fixed Bool")
R.glob("socket.MSG_WAITALL", VInt(z3.Const("MSG_WAITALL", IntS)), "flag constant")


def _sock_close(self, E, st, sock, args, kw):
    st.event("sock.close", sock)
    st.set(sock, "closed", VBool(True))
    return [Res(st, NONE)]


def _sock_shutdown(self, E, st, sock, args, kw):
    s2 = st.fork()
    return [Res(st, NONE), Res(s2, exc=_os_error(E, s2, sock))]


def _sock_settimeout(self, E, st, sock, args, kw):
    st.event("sock.settimeout", sock, args[0] if args else NONE)
    return [Res(st, NONE)]


def _sock_getpeername(self, E, st, sock, args, kw):
    from specs.opaque import may_raise   # noqa
    s2 = st.fork()
    return [Res(st, VOpaque(fresh("peername", U))), Res(s2, exc=_os_error(E, s2, sock))]


def _sock_accept(self, E, st, sock, args, kw):
    """listening socket: returns (client socket, address) | raises socket.timeout | raises socket.error"""
    csock = new_socket(E, st, fresh_name("csock"))
    s2 = st.fork()
    s3 = st.fork()
    return [Res(st, VTuple([csock, VOpaque(fresh("caddr", U))])),
            Res(s2, exc=E.new_exc(s2, "builtins.TimeoutError", [VStr("timed out")])),
            Res(s3, exc=_os_error(E, s3, sock))]


SocketModel.methods.update({"close": _sock_close, "shutdown": _sock_shutdown, "settimeout": _sock_settimeout,
                            "getpeername": _sock_getpeername, "accept": _sock_accept})
R.glob("socket.SHUT_RDWR", VInt(2), "constant")
R.glob("Pyro5.socketutil.ERRNO_BADF", VSet(z3.Const("ERRNO_BADF", z3.ArraySort(IntS, BoolS)), z3.Const("ERRNO_BADF_card", IntS), IntS), "errno list: arbitrary fixed set")
R.glob("Pyro5.socketutil.ERRNO_ENOTSOCK", VSet(z3.Const("ERRNO_ENOTSOCK", z3.ArraySort(IntS, BoolS)), z3.Const("ERRNO_ENOTSOCK_card", IntS), IntS), "errno list: arbitrary fixed set")


@R.spec("Pyro5.socketutil.SocketConnection", doc="SocketConnection(sock): wrapper object around the socket with empty session-instance and resource tables")
def new_socket_connection(E, st, args, kw):
    from specs.opaque import new_odict
    conn = st.new_obj("Pyro5.socketutil.SocketConnection", sock=args[0], keep_open=VBool(False))
    st.set(conn, "pyroInstances", new_odict(st, fresh_name("session_instances")))
    return [Res(st, conn)]
