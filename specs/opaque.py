"""Assumed semantics of *opaque* Python values (user objects, decoded payloads, user callables), DESIGN 2.3 row "calls (3)":
a call of user code appends a ghost event, returns an arbitrary value, may raise any Exception subclass, and does not touch
Pyro-internal state outside the frame a contract states.  Also: dicts keyed by opaque values (`odict`), locks, and the
operations on opaque values the dispatch code performs (subscript, unpack, getattr, truthiness, ==)."""
import z3
from pyvc.values import *
from pyvc.engine import Res, Out, Unsupported
from pyvc.registry import R
from pyvc import classes as CL
import specs.seqdict   # noqa: F401  (registers syntax.for, extended below)

utf8 = z3.Function("utf8_encode", StrS, BytesS)
is_class = z3.Function("is_class", U, BoolS)
instance_of = z3.Function("instance_of", U, U, BoolS)
u_getitem = z3.Function("u_getitem", U, U, U)
u_attr = z3.Function("u_attr", U, StrS, U)
u_len = z3.Function("u_len", U, IntS)
is_callable = z3.Function("is_callable", U, BoolS)


def box(v):
    """U-term of a modelled value (for storing typed values into opaque containers)"""
    if isinstance(v, VOpaque):
        return v.e
    if isinstance(v, VNone):
        return U_NONE
    if isinstance(v, VStr):
        return box_str(v.e)
    if isinstance(v, VInt):
        return box_int(v.e)
    if isinstance(v, VBytes):
        return box_bytes(v.e)
    if isinstance(v, VBool):
        return box_bool(v.e)
    if isinstance(v, VObj):
        return z3.Const("obj#%d" % v.ref, U)
    raise Unsupported("cannot box %r" % (v,))


def box_facts(v):
    if isinstance(v, VStr):
        return [is_str(box_str(v.e)), unbox_str(box_str(v.e)) == v.e, box_str(v.e) != U_NONE]
    if isinstance(v, VInt):
        return [is_int(box_int(v.e)), unbox_int(box_int(v.e)) == v.e, box_int(v.e) != U_NONE]
    if isinstance(v, VObj):
        return [z3.Const("obj#%d" % v.ref, U) != U_NONE]
    return []


def may_raise(E, st, what="uexc", base="builtins.Exception"):
    """the exceptional outcome of a call into user code: an exception of an arbitrary class below `base`"""
    s2 = st.fork()
    exc = E.new_sym_exc(s2, base, what)
    s2.trace.append("%s raises <any %s>" % (what, base.split(".")[-1]))
    return Res(s2, exc=exc)


def user_call(E, st, target, args, kwargs, kind="user_call"):
    """call of user code: ghost event, contract hook (gate obligations), arbitrary result | any Exception"""
    c = getattr(E, "cur_contract", None)
    if c is not None and hasattr(c, "on_user_call"):
        c.on_user_call(E, st, target, args, kwargs, kind)
    st.event(kind, target, tuple(args), dict(kwargs))
    cnt = st.ghost.get("user_calls")
    if cnt is not None:
        st.ghost["user_calls"] = VInt(cnt.e + 1)
    out = [may_raise(E, st, kind)]
    if c is not None and hasattr(c, "user_call_may_raise") and not c.user_call_may_raise(E, st, target, kind):
        out = []
    res = VOpaque(fresh("result_of_" + kind, U))
    st.trace.append("%s returns" % kind)
    if c is not None and hasattr(c, "after_user_call"):
        c.after_user_call(E, st, target, args, kwargs, kind, res)
    out.insert(0, Res(st, res))
    return out


@R.spec("U.call", doc="call of an opaque callable = user code: event user_call, arbitrary result, may raise any Exception subclass; "
        "Pyro-internal state is not touched beyond what the calling contract's hooks state")
def u_call(E, st, args, kw):
    return user_call(E, st, args[0], args[1:], kw)


@R.spec("syntax.starcall", doc="f(*a, **k) with opaque a/k: as U.call; a non-iterable *a or non-mapping **k is one of the ways it may raise")
def starcall(E, st, args, kw):
    f, plain, star, dstar, kwargs = args
    if isinstance(f, (VOpaque, VObj)):
        return user_call(E, st, f, list(plain) + [("*", s) for s in star] + [("**", d) for d in dstar], kwargs)
    if isinstance(f, VFunc) and len(star) == 1 and not dstar and isinstance(star[0], VOpaque):
        # a repository function called with f(a, .., *seq) where seq is an arbitrary (peer-chosen) sequence: the sequence may have any length, so EVERY
        # remaining positional parameter may receive an arbitrary value (seq[i]); a sequence of the wrong length is one of the ways the call raises TypeError
        import ast as _ast
        from pyvc.engine import Module
        modq, fq = E.split_func(f.qname)
        mod = Module.load(modq)
        if fq not in mod.funcs:
            raise Unsupported("star call of %r" % (f,))
        fnode = mod.funcs[fq]
        params = [x.arg for x in fnode.args.posonlyargs + fnode.args.args]
        free = [n for n in params[len(plain):] if n not in kwargs]
        extra = [VOpaque(u_getitem(star[0].e, box_int(z3.IntVal(i)))) for i in range(len(free))]
        out = list(E.call(st.fork(), f, list(plain) + extra, kwargs, kw.get("node")))
        out.append(may_raise(E, st, "star-call"))
        return out
    raise Unsupported("star call of %r" % (f,))


@R.spec("U.getitem", doc="x[k] on an opaque value: u_getitem(x,k), or any exception (TypeError/KeyError/IndexError/...)")
def u_getitem_spec(E, st, args, kw):
    x, k = args
    out = [may_raise(E, st, "subscript")]
    out.insert(0, Res(st, VOpaque(u_getitem(x.e, box(k)))))
    return out


@R.spec("syntax.unpack", doc="a, b, .. = opaque: n components u_getitem(x, i), or TypeError/ValueError")
def u_unpack(E, st, args, kw):
    x, n = args
    n = E._const_int(n)
    if not isinstance(x, VOpaque):
        raise Unsupported("unpack of %r" % (x,))
    out = [may_raise(E, st, "unpack")]
    out.insert(0, Res(st, VTuple([VOpaque(u_getitem(x.e, box_int(z3.IntVal(i)))) for i in range(n)])))
    return out


@R.spec("U.getattr", doc="attribute of an opaque value: u_attr(x, name) or AttributeError (any exception for properties)")
def u_getattr_spec(E, st, args, kw):
    x, n = args[0], args[1]
    if not isinstance(x, VOpaque):
        raise Unsupported("getattr on %r" % (x,))
    name = n.e if isinstance(n, VStr) else unbox_str(n.e)
    if isinstance(n, VStr) and z3.is_string_value(z3.simplify(n.e)) and z3.simplify(n.e).as_string() == "encode":
        return [Res(st, VFunc("U.str_encode:" + str(x.e)))] if False else [Res(st, VBound(x, "encode"))]
    c = getattr(E, "cur_contract", None)
    if c is not None and hasattr(c, "opaque_getattr"):
        r = c.opaque_getattr(E, st, x, n, args[2] if len(args) > 2 else None)
        if r is not None:
            return r
    out = []
    if len(args) > 2:
        s3 = st.fork()
        out.append(Res(s3, args[2]))
    else:
        s2 = st.fork()
        out.append(E.raise_(s2, "builtins.AttributeError"))
    out.insert(0, Res(st, VOpaque(u_attr(x.e, name))))
    return out


@R.spec("U.len")
def u_len_spec(E, st, args, kw):
    x = args[0]
    st2 = st.fork()
    st.assume(u_len(x.e) >= 0)
    return [Res(st, VInt(u_len(x.e))), may_raise(E, st2, "len")]


@R.spec("U.isinstance", doc="isinstance(opaque, classes): for known builtin classes by the is_* predicates, else uninterpreted")
def u_isinstance(E, st, args, kw):
    x, names = args
    conds = []
    for n in names:
        if n == "builtins.str":
            conds.append(is_str(x.e))
        elif n == "builtins.int":
            conds.append(is_int(x.e))
        elif n in ("builtins.bytes", "builtins.bytearray", "builtins.memoryview"):
            conds.append(is_bytes(x.e))
        elif n is not None and CL.known(n):
            conds.append(sub(typeof(x.e), CL.term(n)))
        else:
            conds.append(z3.Function("isinstance_" + str(n), U, BoolS)(x.e))
    return [Res(st, VBool(z3.Or(conds) if len(conds) > 1 else conds[0]))]


@R.spec("U.eq")
def u_eq(E, st, a, b):
    if z3.eq(a.e, b.e):
        return z3.BoolVal(True)
    return z3.Function("u_eq", U, U, BoolS)(a.e, b.e)


@R.spec("inspect.isclass", doc="uninterpreted predicate is_class on opaque values")
def insp_isclass(E, st, args, kw):
    v = args[0]
    if isinstance(v, VOpaque):
        return [Res(st, VBool(is_class(v.e)))]
    if isinstance(v, VClass):
        return [Res(st, VBool(True))]
    return [Res(st, VBool(False))]


@R.spec("builtins.callable")
def b_callable(E, st, args, kw):
    v = args[0]
    if isinstance(v, VOpaque):
        return [Res(st, VBool(is_callable(v.e)))]
    return [Res(st, VBool(isinstance(v, (VFunc, VClass, VBound, VClosure))))]


# ----------------------------------------------------------------------------------------------------------------------
# dict keyed by opaque values

def new_odict(st, name):
    return st.new_obj("odict", dom=z3.Const(name + "_dom", z3.ArraySort(U, BoolS)), map=z3.Const(name + "_map", z3.ArraySort(U, U)),
                      name=name)


def _access(E, st, d, op, node=None):
    c = getattr(E, "cur_contract", None)
    if c is not None and hasattr(c, "on_access"):
        c.on_access(E, st, d, op)


@R.model("odict")
class ODict:
    """dict with opaque keys/values: dom (set of keys) and map as arrays; single operations are atomic (GIL)"""

    def getattr(self, E, st, obj, name):
        return None

    def contains(self, E, st, obj, item):
        _access(E, st, obj, "in")
        return z3.Select(st.get(obj, "dom"), box(item))

    def m_get(self, E, st, obj, args, kw):
        _access(E, st, obj, "get")
        k = box(args[0])
        dflt = box(args[1]) if len(args) > 1 else U_NONE
        return [Res(st, VOpaque(z3.If(z3.Select(st.get(obj, "dom"), k), z3.Select(st.get(obj, "map"), k), dflt)))]

    def m_getitem(self, E, st, obj, args, kw):
        _access(E, st, obj, "getitem")
        k = box(args[0])
        out = []
        for s2, ok in E.branch(st, z3.Select(st.get(obj, "dom"), k)):
            if ok:
                out.append(Res(s2, VOpaque(z3.Select(s2.get(obj, "map"), k))))
            else:
                out.append(E.raise_(s2, "builtins.KeyError"))
        return out

    def m_setitem(self, E, st, obj, args, kw):
        _access(E, st, obj, "setitem")
        k, v = box(args[0]), box(args[1])
        st.assume(*box_facts(args[1]))
        st.set(obj, "dom", z3.Store(st.get(obj, "dom"), k, z3.BoolVal(True)))
        st.set(obj, "map", z3.Store(st.get(obj, "map"), k, v))
        return [Res(st, NONE)]

    def m_delitem(self, E, st, obj, args, kw):
        _access(E, st, obj, "delitem")
        k = box(args[0])
        out = []
        for s2, ok in E.branch(st, z3.Select(st.get(obj, "dom"), k)):
            if ok:
                s2.set(obj, "dom", z3.Store(s2.get(obj, "dom"), k, z3.BoolVal(False)))
                out.append(Res(s2, NONE))
            else:
                out.append(E.raise_(s2, "builtins.KeyError"))
        return out

    def m_pop(self, E, st, obj, args, kw):
        """d.pop(k[, default]): the value, entry removed - or the default / KeyError when absent"""
        _access(E, st, obj, "pop")
        k = box(args[0])
        out = []
        for s2, ok in E.branch(st, z3.Select(st.get(obj, "dom"), k)):
            if ok:
                v = VOpaque(z3.Select(s2.get(obj, "map"), k))
                s2.set(obj, "dom", z3.Store(s2.get(obj, "dom"), k, z3.BoolVal(False)))
                out.append(Res(s2, v))
            elif len(args) > 1:
                out.append(Res(s2, args[1]))
            else:
                out.append(E.raise_(s2, "builtins.KeyError"))
        return out

    methods = {"get": m_get, "__getitem__": m_getitem, "__setitem__": m_setitem, "__delitem__": m_delitem, "pop": m_pop}


# ----------------------------------------------------------------------------------------------------------------------
# locks (ghost depth; mutual exclusion itself is assumed of threading.Lock/RLock)

@R.model("lock")
class LockModel:
    """threading.Lock / RLock used as a context manager: ghost depth[lock] += 1 on entry, -= 1 on every exit path"""

    def getattr(self, E, st, obj, name):
        return None

    def enter(self, E, st, cm, node):
        st.locks[cm.ref] = st.locks.get(cm.ref, 0) + 1
        c = getattr(E, "cur_contract", None)
        if c is not None and hasattr(c, "on_lock"):
            c.on_lock(E, st, cm, "enter")
        return [Res(st, cm)]

    def exit(self, E, out, cm, node):
        out.st.locks[cm.ref] = out.st.locks.get(cm.ref, 0) - 1
        c = getattr(E, "cur_contract", None)
        if c is not None and hasattr(c, "on_lock"):
            c.on_lock(E, out.st, cm, "exit")
        return [out]

    methods = {}


@R.spec("U.instance_of", doc="isinstance(x, C) for an opaque class C: uninterpreted instance_of(x, C)")
def u_instance_of(E, st, args, kw):
    v, c = args
    return [Res(st, VBool(instance_of(box(v), c.e)))]


@R.method("VOpaque", "encode")
def u_encode(E, st, recv, args, kw):
    """x.encode() on an opaque value: bytes if x is a str, AttributeError/TypeError otherwise (not user code)"""
    out = []
    for s2, ok in E.branch(st, is_str(recv.e)):
        if ok:
            out.append(Res(s2, VBytes(utf8(unbox_str(recv.e)))))
        else:
            out.append(E.raise_(s2, "builtins.AttributeError"))
    return out


# iteration over an opaque sequence (the batch list): ghost index, elements u_getitem(x, i), length u_len(x) >= 0

def opaque_for(E, st, node, it):
    k = E.loop_ordinal(node)
    key = "idx%d" % k
    out = [may_raise(E, st, "iter")]            # a non-iterable batch payload
    st.ghost[key] = VInt(0)
    n = u_len(it.e)
    st.assume(n >= 0)

    def guard(h):
        j = h.ghost[key].e
        res = []
        for s2, t in E.branch(h, j < n):
            if t:
                s2.assume(j >= 0)
                elem = VOpaque(u_getitem(it.e, box_int(j)))
                for ao in E.assign(node.target, elem, s2):
                    if ao.kind == "next":
                        res.append((ao.st, True, None))
                    else:
                        res.append((ao.st, None, ao))
            else:
                res.append((s2, False, None))
        return res
    return [o for o in E.cut_loop(node, st, guard, extra_frame=[("ghost", key)])] + \
        [Out("raise", r.st, r.exc) for r in out]


_orig_for = R.specs["syntax.for"]


@R.spec("syntax.for", doc="for-loops over seqdict views (ghost index) and over opaque sequences (ghost index, u_getitem/u_len; may raise)")
def for_any(E, st, args, kw):
    node, it = args
    if isinstance(it, VOpaque):
        return opaque_for(E, st, node, it)
    return _orig_for(E, st, args, kw)





# list comprehension over an opaque iterable: the element expression is evaluated once for an arbitrary element (its exceptions propagate);
# the result is an arbitrary new list (nothing is claimed about its contents)
_prev_listcomp = R.specs.get("syntax.listcomp")


@R.spec("syntax.listcomp", doc="[e for x in <opaque iterable>]: e evaluated for an arbitrary element (may raise what e raises, or what iterating raises); "
                               "result: an arbitrary new list")
def opaque_listcomp(E, st, args, kw):
    import ast as _ast
    node, module = args
    if isinstance(node, _ast.ListComp) and len(node.generators) == 1 and not node.generators[0].ifs:
        gen = node.generators[0]
        rs = E.ev(gen.iter, st, module)
        if len(rs) == 1 and rs[0].exc is None and isinstance(rs[0].val, VOpaque):
            st = rs[0].st
            out = [may_raise(E, st, "iter")]
            saved = dict(st.env)
            s_elem = st.fork()
            for ao in E.assign(gen.target, VOpaque(fresh("elem", U)), s_elem):
                if ao.kind != "next":
                    raise Unsupported("comprehension target")
                for r in E.ev(node.elt, ao.st, module):
                    if r.exc is not None:
                        r.st.env = dict(saved)
                        out.append(r)
            out.insert(0, Res(st, VOpaque(fresh("listcomp_result", U))))
            return out
    if _prev_listcomp is None:
        raise Unsupported("list comprehension at line %d" % node.lineno)
    return _prev_listcomp(E, st, args, kw)
