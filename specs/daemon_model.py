"""Assumed contracts of what the daemon's dispatch code calls outside the functions under contract: serializer objects
(uninterpreted dumps/loads that may raise), the serializer table, uuid, config items, the registry dict `objectsById`
with the daemon's own DaemonObject, the thread-local call context, annotation dicts with provenance (ghost)."""
import z3
from pyvc.values import *
from pyvc.engine import Res, Unsupported
from pyvc.registry import R
from specs.opaque import may_raise, box, box_facts, user_call, new_odict, ODict
from specs.seqdict import SeqDict

ser_known = z3.Function("serializer_known", IntS, BoolS)

for _name, _sort in (("LOGWIRE", BoolS), ("DETAILED_TRACEBACK", BoolS), ("ITER_STREAMING", BoolS)):
    R.glob("Pyro5.config." + _name, VBool(z3.Const("config_" + _name, _sort)), "configuration item: arbitrary fixed value")
for _name in ("ITER_STREAM_LINGER", "ITER_STREAM_LIFETIME", "COMMTIMEOUT", "POLLTIMEOUT"):
    R.glob("Pyro5.config." + _name, VReal(z3.Const("config_" + _name, RealS)), "configuration item: arbitrary fixed number")
for _name in ("THREADPOOL_SIZE", "THREADPOOL_SIZE_MIN", "MAX_RETRIES"):
    R.glob("Pyro5.config." + _name, VInt(z3.Const("config_" + _name, IntS)), "configuration item: arbitrary fixed int")


def config_facts():
    """global facts about configuration items assumed on every path"""
    mx = z3.Const("config_MAX_MESSAGE_SIZE", IntS)
    return [mx >= 0, mx < 2 ** 32] + [ser_known(z3.IntVal(k)) for k in (1, 2, 3, 4)]


# ---------------------------------------------------------------------------------------------------------------------
# serializers

def new_serializer(st, sid):
    return st.new_obj("serializer", serializer_id=sid)


@R.model("serializer")
class SerializerModel:
    """a serializer object: dumps(v) returns some bytes, loads/loadsCall(b) return arbitrary (opaque) values; each may raise
    any Exception (unserialisable value / hostile payload), except dumps of a plain str, which always succeeds"""

    def getattr(self, E, st, obj, name):
        return None

    def m_dumps(self, E, st, obj, args, kw):
        v = args[0]
        out = []
        if not isinstance(v, VStr):
            out.append(may_raise(E, st, "dumps"))
        b = VBytes(fresh("dumped", BytesS))
        st.event("dumps", obj, v, b)
        out.insert(0, Res(st, b))
        return out

    def m_loads(self, E, st, obj, args, kw):
        out = [may_raise(E, st, "loads")]
        r = VOpaque(fresh("loaded", U))
        out.insert(0, Res(st, r))
        return out

    def m_loadsCall(self, E, st, obj, args, kw):
        out = [may_raise(E, st, "loadsCall")]
        r = VTuple([VOpaque(fresh("req_" + n, U)) for n in ("objId", "method", "vargs", "kwargs")])
        out.insert(0, Res(st, r))
        return out

    methods = {"dumps": m_dumps, "loads": m_loads, "loadsCall": m_loadsCall, "dumpsCall": m_dumps}


@R.model("serializer_table")
class SerializerTable:
    """serializers.serializers_by_id: id -> serializer object for the known ids, KeyError otherwise"""

    def getattr(self, E, st, obj, name):
        return None

    def m_getitem(self, E, st, obj, args, kw):
        sid = args[0]
        out = []
        for s2, ok in E.branch(st, ser_known(sid.e)):
            if ok:
                out.append(Res(s2, new_serializer(s2, sid)))
            else:
                s2.trace.append("unknown serializer id")
                out.append(E.raise_(s2, "builtins.KeyError"))
        return out

    methods = {"__getitem__": m_getitem}


class _Lazy:
    """module-level objects that need a heap cell: allocated per state on first use"""


def _serializers_by_id(E):
    return VObj(0, "serializer_table")


R.glob("Pyro5.serializers.serializers_by_id", VObj(0, "serializer_table"), "the serializer table (see model serializer_table)")


# ---------------------------------------------------------------------------------------------------------------------
# uuid

@R.spec("uuid.UUID", doc="uuid.UUID(bytes=b): a truthy uuid object; ValueError unless len(b) == 16")
def uuid_ctor(E, st, args, kw):
    b = kw.get("bytes")
    if b is None:
        raise Unsupported("uuid.UUID without bytes=")
    out = []
    ln = len(b.units) if b.units is not None else None
    for s2, ok in E.branch(st, z3.BoolVal(ln == 16) if ln is not None else z3.Length(b.e) == 16):
        if ok:
            out.append(Res(s2, s2.new_obj("uuid.UUID", bytes=VBytes(b.e, "bytes", b.units))))
        else:
            out.append(E.raise_(s2, "builtins.ValueError"))
    return out


@R.spec("uuid.uuid4", doc="a fresh uuid object with arbitrary 16 bytes")
def uuid4(E, st, args, kw):
    b = fresh("uuid4_bytes", BytesS)
    st.assume(z3.Length(b) == 16)
    return [Res(st, st.new_obj("uuid.UUID", bytes=VBytes(b)))]


# ---------------------------------------------------------------------------------------------------------------------
# annotation dicts with provenance: every seqdict object used as an annotation dict carries a python-side set `prov` of
# source labels; update() unions them.  The byte content is an arbitrary valid annotation dict.

def new_annotations(st, prov, name="ann"):
    from specs.seqdict import new_seqdict
    d = new_seqdict(st, fresh_name(name), StrS, BytesS, VStr, VBytes, distinct=False)
    st.set(d, "prov", frozenset(prov))
    return d


def _sd_update(self, E, st, obj, args, kw):
    other = args[0]
    if not (isinstance(other, VObj) and other.cls == "seqdict"):
        raise Unsupported("dict.update(%r)" % (other,))
    prov = frozenset(st.get(obj, "prov", frozenset(["empty"]))) | frozenset(st.get(other, "prov", frozenset(["empty"])))
    st.set(obj, "n", VInt(fresh("merged_n", IntS)))
    st.assume(st.get(obj, "n").e >= 0)
    st.set(obj, "keys", fresh("merged_keys", z3.ArraySort(IntS, StrS)))
    st.set(obj, "vals", fresh("merged_vals", z3.ArraySort(IntS, BytesS)))
    st.set(obj, "prov", prov)
    return [Res(st, NONE)]


def _sd_clear(self, E, st, obj, args, kw):
    st.set(obj, "n", VInt(0))
    st.set(obj, "prov", frozenset(["empty"]))
    return [Res(st, NONE)]


SeqDict.m_update = _sd_update
SeqDict.methods["update"] = _sd_update
SeqDict.methods["clear"] = _sd_clear


@R.spec("syntax.dict_display", doc="{k: v, ...} of arbitrary values: an opaque dict value (its entries are remembered as a ghost tuple)")
def dict_display(E, st, args, kw):
    keys, vals = args
    d = VOpaque(fresh("dictlit", U))
    st.event("dict_display", d, keys, vals)
    return [Res(st, d)]


# ---------------------------------------------------------------------------------------------------------------------
# the registry and the daemon's own object

registered = z3.Function("registered", z3.ArraySort(U, BoolS), U, BoolS)


@R.model("registry")
class Registry(ODict):
    """Daemon.objectsById: an odict whose entry for core.DAEMON_NAME is the daemon's DaemonObject (rep-invariant I1)"""

    def m_getitem(self, E, st, obj, args, kw):
        k = args[0]
        if isinstance(k, VStr) and z3.is_true(z3.simplify(k.e == z3.StringVal("Pyro.Daemon"))):
            c = getattr(E, "cur_contract", None)
            if c is not None and hasattr(c, "on_access"):
                c.on_access(E, st, obj, "getitem")
            return [Res(st, st.get(obj, "daemon_object"))]
        return ODict.m_getitem(self, E, st, obj, args, kw)

    methods = dict(ODict.methods)
    methods["__getitem__"] = m_getitem


def new_registry(st, daemon, name="objectsById"):
    reg = st.new_obj("registry", dom=z3.Const(name + "_dom", z3.ArraySort(U, BoolS)), map=z3.Const(name + "_map", z3.ArraySort(U, U)), name=name)
    dobj = st.new_obj("Pyro5.server.DaemonObject", daemon=daemon)
    st.set(reg, "daemon_object", dobj)
    st.assume(z3.Select(st.get(reg, "dom"), box_str(z3.StringVal("Pyro.Daemon"))))
    return reg


@R.model("Pyro5.server.DaemonObject")
class DaemonObjectModel:
    """DaemonObject.get_metadata(objectId) as seen from the handshake (its own contract is part of C02/C16): returns the
    metadata (opaque) only if objectId is registered (non-None entry), raises DaemonError for an unknown id; resolving the
    members may run user code and so may raise any Exception"""

    def getattr(self, E, st, obj, name):
        return None

    def m_get_metadata(self, E, st, obj, args, kw):
        oid = args[0]
        daemon = st.get(obj, "daemon")
        reg = st.get(daemon, "objectsById")
        dom, mp = st.get(reg, "dom"), st.get(reg, "map")
        k = box(oid)
        known = z3.And(z3.Select(dom, k), z3.Select(mp, k) != U_NONE)
        out = []
        for s2, ok in E.branch(st, known):
            if ok:
                out.append(may_raise(E, s2, "get_metadata"))
                md = VOpaque(fresh("metadata", U))
                s2.event("get_metadata", oid, md)
                out.append(Res(s2, md))
            else:
                s2.trace.append("unknown object")
                out.append(E.raise_(s2, "Pyro5.errors.DaemonError"))
        return out

    methods = {"get_metadata": m_get_metadata}


def new_daemon(E, st, name="daemon"):
    d = st.new_obj("Pyro5.server.Daemon")
    st.set(d, "_pyroInstances", new_odict(st, name + "_single_instances"))
    st.set(d, "create_single_instance_lock", st.new_obj("lock", name="create_single_instance_lock"))
    st.set(d, "objectsById", new_registry(st, d))
    st.set(d, "streaming_responses", new_odict(st, name + "_streams"))
    st.set(d, "methodcall_error_handler", VOpaque(z3.Const(name + "_error_handler", U)))
    st.assume(*config_facts())
    return d


def new_call_context(st, name="ctx"):
    """thread-local current_context with whatever a previous request served by this thread left in it"""
    from specs.pystruct import new_context
    ctx = new_context(st, name)
    st.set(ctx, "response_annotations", new_annotations(st, ["left-over-from-an-earlier-request"], "stale_ra"))
    st.set(ctx, "annotations", new_annotations(st, ["left-over-from-an-earlier-request"], "stale_ann"))
    st.set(ctx, "client", VOpaque(fresh("stale_client", U)))
    st.set(ctx, "client_sock_addr", VOpaque(fresh("stale_addr", U)))
    st.set(ctx, "seq", VInt(fresh("stale_seq", IntS)))
    st.set(ctx, "msg_flags", VInt(fresh("stale_flags", IntS)))
    st.set(ctx, "serializer_id", VInt(fresh("stale_ser", IntS)))
    return ctx


# user-overridable daemon hooks = user code

def _hook(kind, result=None):
    def h(E, st, args, kw):
        return user_call(E, st, VOpaque(z3.Const("hook:" + kind, U)), args[1:], kw, kind=kind)
    return h


R.spec("Pyro5.server.Daemon.validateHandshake", doc="user-overridable validator: user code (any result, any Exception)")(_hook("validateHandshake"))
R.spec("Pyro5.server.Daemon.clientDisconnect", doc="user-overridable disconnect hook: user code")(_hook("clientDisconnect"))
R.spec("Pyro5.server.Daemon.housekeeping", doc="user-overridable housekeeping hook: user code")(_hook("housekeeping"))


@R.spec("Pyro5.server.Daemon.annotations", doc="user-overridable: returns a dict of daemon-wide annotations (any valid annotation dict); may raise")
def daemon_annotations(E, st, args, kw):
    out = [may_raise(E, st, "annotations()")]
    d = new_annotations(st, ["daemon.annotations()"], "daemon_ann")
    out.insert(0, Res(st, d))
    return out


@R.spec("Pyro5.errors.format_traceback", doc="returns a list of strings (opaque); assumed not to raise")
def format_traceback(E, st, args, kw):
    return [Res(st, VOpaque(fresh("tblines", U)))]


R.inline("Pyro5.server.Daemon.__annotations")

R.glob("Pyro5.svr_threads._client_disconnect_lock", VObj(-1, "lock"), "module-level lock serialising disconnect handling")


@R.spec("builtins.dict:copy", doc="dict(d or {}) of an annotation dict: a new dict object with the same provenance")
def _dict_copy(E, st, args, kw):
    src = args[0]
    d = new_annotations(st, st.get(src, "prov", frozenset(["empty"])) if isinstance(src, VObj) else ["empty"], "copied")
    return [Res(st, d)]


_orig_dict = R.specs["builtins.dict"]


@R.spec("builtins.dict")
def _dict(E, st, args, kw):
    if len(args) == 1 and isinstance(args[0], VObj) and args[0].cls == "seqdict":
        return _dict_copy(E, st, args, kw)
    return _orig_dict(E, st, args, kw)
