"""Assumed model of a Python dict that is only *read* (iterated / measured): an insertion-ordered association sequence
keys[0..n), vals[0..n) with pairwise distinct keys (CPython >= 3.7 iteration order = insertion order).
Also: list comprehensions / sum over its views are translated by the engine into recursively defined functions."""
import ast
import z3
from pyvc.values import *
from pyvc.engine import Res, Out, State
from pyvc.registry import R


def new_seqdict(st, name, ksort, vsort, kwrap, vwrap, n=None, distinct=True):
    n = z3.Const(name + "_n", IntS) if n is None else n
    d = st.new_obj("seqdict", n=VInt(n), keys=z3.Const(name + "_keys", z3.ArraySort(IntS, ksort)),
                   vals=z3.Const(name + "_vals", z3.ArraySort(IntS, vsort)), kwrap=kwrap, vwrap=vwrap, name=name)
    st.assume(n >= 0)
    if distinct:
        i, j = z3.Ints("i!sd j!sd")
        keys = st.get(d, "keys")
        st.assume(z3.ForAll([i, j], z3.Implies(z3.And(0 <= i, i < j, j < n), keys[i] != keys[j])))
    return d


def empty_seqdict(st):
    return st.new_obj("seqdict", n=VInt(0), keys=z3.Const(fresh_name("log_keys"), z3.ArraySort(IntS, StrS)),
                      vals=z3.Const(fresh_name("log_vals"), z3.ArraySort(IntS, BytesS)),
                      kwrap=VStr, vwrap=VBytes, name="empty")


@R.model("seqdict")
class SeqDict:
    """read-only dict as ordered association sequence (keys distinct); supports len, truthiness, .items()/.values()/
    .keys() views for `for` loops and comprehensions"""

    def getattr(self, E, st, obj, name):
        if name in ("keys", "values", "items"):      # the methods, not the model's own fields of the same name
            return [Res(st, VBound(obj, name))]
        return None

    def truth(self, E, st, obj):
        return st.get(obj, "n").e > 0

    def m_len(self, E, st, obj, args, kw):
        return [Res(st, st.get(obj, "n"))]

    def m_items(self, E, st, obj, args, kw):
        return [Res(st, st.new_obj("seqdict_view", d=obj, kind="items"))]

    def m_values(self, E, st, obj, args, kw):
        return [Res(st, st.new_obj("seqdict_view", d=obj, kind="values"))]

    def m_keys(self, E, st, obj, args, kw):
        return [Res(st, st.new_obj("seqdict_view", d=obj, kind="keys"))]

    def m_setitem(self, E, st, obj, args, kw):
        """d[k] = v recorded as the next entry of the assignment log (keys[n], vals[n]) := (k, v); the dict denoted by a
        log is its last-wins fold (only used where the log itself is the specified object)"""
        k, v = args
        n = st.get(obj, "n").e
        st.set(obj, "keys", z3.Store(st.get(obj, "keys"), n, z(k)))
        st.set(obj, "vals", z3.Store(st.get(obj, "vals"), n, z(v)))
        st.set(obj, "n", VInt(n + 1))
        return [Res(st, NONE)]

    methods = {"__len__": m_len, "items": m_items, "values": m_values, "keys": m_keys, "__setitem__": m_setitem}


@R.model("seqdict_view")
class SeqDictView:
    """items()/values()/keys() view of a seqdict"""

    def getattr(self, E, st, obj, name):
        return None

    methods = {}


def view_elem(st, view, j):
    d = st.get(view, "d")
    kind = st.get(view, "kind")
    k = st.get(d, "kwrap")(z3.Select(st.get(d, "keys"), j))
    v = st.get(d, "vwrap")(z3.Select(st.get(d, "vals"), j))
    return {"items": VTuple([k, v]), "values": v, "keys": k}[kind]


@R.spec("syntax.for", doc="for-loop over a seqdict view: ghost index idx<k> runs 0..n; target = element idx; cut at the sidecar invariant")
def for_hook(E, st, args, kw):
    node, it = args
    if isinstance(it, VObj) and it.cls == "seqdict":
        it = st.new_obj("seqdict_view", d=it, kind="keys")
    generic = None
    if hasattr(it, "iter_spec_v"):
        generic = it.iter_spec_v(E, st)
    elif isinstance(it, VObj) and it.cls != "seqdict_view":
        m = R.models.get(it.cls)
        if m is not None and hasattr(m, "iter_spec"):
            generic = m.iter_spec(E, st, it)       # (length term, element function j -> V)
    if generic is None and not (isinstance(it, VObj) and it.cls == "seqdict_view"):
        raise Unsupported("for loop over %r at line %d" % (it, node.lineno))
    if generic is not None and len(generic) > 2:
        st.assume(*generic[2])
    k = E.loop_ordinal(node)
    key = "idx%d" % k
    st.ghost[key] = VInt(0)
    n = generic[0] if generic else st.get(st.get(it, "d"), "n").e

    def guard(h):
        j = h.ghost[key].e
        res = []
        for s2, t in E.branch(h, j < n):
            if t:
                s2.assume(j >= 0)
                elem = generic[1](j) if generic else view_elem(s2, it, j)
                for ao in E.assign(node.target, elem, s2):
                    if ao.kind == "next":
                        res.append((ao.st, True, None))
                    else:
                        res.append((ao.st, None, ao))
            else:
                res.append((s2, False, None))
        return res
    return E.cut_loop(node, st, guard, extra_frame=[("ghost", key)])


class VComp(V):
    """[f(x) for x in view]: element function j -> z3 Int term, length n"""
    __slots__ = ("f", "n", "tag")

    def __init__(self, f, n, tag):
        self.f, self.n, self.tag = f, n, tag


@R.spec("syntax.listcomp", doc="[e for x in <seqdict view>] with an int-valued, exception-free, single-path element expression "
        "becomes the function j -> e[x := element j]; sum(...) of it becomes S with S(0)=0, S(j+1)=S(j)+e_j for 0<=j<n")
def listcomp(E, st, args, kw):
    node, module = args
    if len(node.generators) != 1 or node.generators[0].ifs:
        raise Unsupported("comprehension shape at line %d" % node.lineno)
    gen = node.generators[0]
    rs = E.ev(gen.iter, st, module)
    if len(rs) != 1 or rs[0].exc is not None:
        raise Unsupported("comprehension iterable")
    it = rs[0].val
    st = rs[0].st
    if isinstance(it, (VList, VTuple)):
        outs = [(st, [])]
        excs = []
        for item in it.items:
            nxt = []
            for s, vals in outs:
                saved = dict(s.env)
                for ao in E.assign(gen.target, item, s):
                    for r in E.ev(node.elt, ao.st, module):
                        if r.exc is not None:
                            excs.append(r)
                        else:
                            r.st.env = dict(saved)
                            nxt.append((r.st, vals + [r.val]))
            outs = nxt
        return [Res(s, VList(vals)) for s, vals in outs] + excs
    if not (isinstance(it, VObj) and it.cls == "seqdict_view"):
        raise Unsupported("comprehension over %r at line %d" % (it, node.lineno))
    j = z3.Int("j!comp%d" % node.lineno)
    s2 = st.fork()
    s2.env = dict(st.env)
    aos = E.assign(gen.target, view_elem(s2, it, j), s2)
    rs = E.ev(node.elt, aos[0].st, module)
    if len(aos) != 1 or len(rs) != 1 or rs[0].exc is not None or not isinstance(rs[0].val, VInt) or len(rs[0].st.pc) != len(st.pc):
        raise Unsupported("comprehension element at line %d is not a single-path int expression" % node.lineno)
    body = rs[0].val.e
    n = st.get(st.get(it, "d"), "n").e
    return [Res(st, VComp(lambda jj, body=body, j=j: z3.substitute(body, (j, jj)), n, "L%d" % node.lineno))]


@R.spec("builtins.sum")
def b_sum(E, st, args, kw):
    v = args[0]
    if isinstance(v, VList) and all(isinstance(x, VInt) for x in v.items):
        return [Res(st, VInt(z3.Sum([x.e for x in v.items]) if v.items else z3.IntVal(0)))]
    if not isinstance(v, VComp):
        raise Unsupported("sum(%r)" % (v,))
    j = z3.Int("j!sum")
    hook = getattr(E.cur, "sum_function", None)
    F = hook(E, st, v.tag) if hook else None
    if F is not None:
        # the sidecar names a spec function for this sum: check that it satisfies the defining recursion of the sum
        # (a function satisfying it on 0..n is unique, so F(n) is the value of sum(...))
        E.oblige(st, "sum@%s[base]" % v.tag, F(0) == 0, kind="post")
        E.oblige(st, "sum@%s[step]" % v.tag, z3.ForAll([j], z3.Implies(z3.And(0 <= j, j < v.n), F(j + 1) == F(j) + v.f(j))), kind="post")
        return [Res(st, VInt(F(v.n)))]
    S = z3.Function(fresh_name("sum_" + v.tag), IntS, IntS)
    st.assume(S(0) == 0)
    st.assume(z3.ForAll([j], z3.Implies(z3.And(0 <= j, j < v.n), S(j + 1) == S(j) + v.f(j)), patterns=[S(j + 1)]))
    st.ghost["sum:" + v.tag] = (S, v.f, v.n)
    return [Res(st, VInt(S(v.n)))]


@R.spec("builtins.dict")
def b_dict(E, st, args, kw):
    if not args and not kw:
        return [Res(st, empty_seqdict(st))]
    raise Unsupported("dict(...)")
