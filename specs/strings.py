"""Assumed contracts of str methods / int() / the two regular expressions used by core.URI (DESIGN Appendix C), as string-theory
formulas; validated against CPython's `re`, `int`, `str` in replay/c19.py (bounded)."""
import z3
from pyvc.values import *
from pyvc.engine import Res, Unsupported, int_to_str
from pyvc.registry import R

int_parses = z3.Function("int_parses", StrS, BoolS)      # int(s) succeeds
int_val = z3.Function("int_val", StrS, IntS)             # ... with this value


def int_facts(n):
    """int("%d" % n) == n"""
    t = int_to_str(n)
    return [int_parses(t), int_val(t) == n]


@R.method("VStr", "partition")
def s_partition(E, st, recv, args, kw):
    sep = args[0]
    i = z3.IndexOf(recv.e, sep.e, 0)
    before = z3.If(i < 0, recv.e, z3.SubString(recv.e, 0, i))
    mid = z3.If(i < 0, z3.StringVal(""), sep.e)
    after = z3.If(i < 0, z3.StringVal(""), z3.SubString(recv.e, i + z3.Length(sep.e), z3.Length(recv.e) - i - z3.Length(sep.e)))
    return [Res(st, VTuple([VStr(before), VStr(mid), VStr(after)]))]


@R.method("VStr", "upper")
def s_upper(E, st, recv, args, kw):
    return [Res(st, VStr(z3.Function("str_upper", StrS, StrS)(recv.e)))]


@R.spec("spec.int_of_str", doc="int(s): ValueError unless int_parses(s); value int_val(s); int('%d' % n) == n")
def int_of_str(E, st, args, kw):
    s = args[0]
    out = []
    for s2, ok in E.branch(st, int_parses(s.e)):
        if ok:
            out.append(Res(s2, VInt(int_val(s.e))))
        else:
            out.append(E.raise_(s2, "builtins.ValueError"))
    return out


HEXCOLON = z3.Union(z3.Range("0", "9"), z3.Range("a", "f"), z3.Range("A", "F"), z3.Re(":"), z3.Re("%"))
DIGITS = z3.Range("0", "9")
IPV6_PATTERN = r"\[([0-9a-fA-F:%]+)](:(\d+))?"


def ipv6_match(E, st, location):
    """re.match(r"\\[([0-9a-fA-F:%]+)](:(\\d+))?", location): None, or groups (host, x, port) with
    location = "[" + host + "]" + rest, host a non-empty run over [0-9a-fA-F:%]; port = the maximal (non-empty) run of ASCII digits right
    after "]:" if there is one, else None.  (Python's \\d also accepts other Unicode decimal digits: excluded by assumption.)"""
    loc = location.e
    host = fresh("ipv6_host", StrS)
    rest = fresh("ipv6_rest", StrS)
    shape = z3.And(loc == z3.Concat(z3.StringVal("["), host, z3.StringVal("]"), rest), z3.Length(host) > 0, z3.InRe(host, z3.Plus(HEXCOLON)))
    s_no = st.fork()
    # no match: there is no such decomposition
    h2, r2 = z3.Const("h!nm", StrS), z3.Const("r!nm", StrS)
    s_no.assume(z3.Not(z3.Exists([h2, r2], z3.And(loc == z3.Concat(z3.StringVal("["), h2, z3.StringVal("]"), r2), z3.Length(h2) > 0,
                                                    z3.InRe(h2, z3.Plus(HEXCOLON))))))
    out = [Res(s_no, NONE)]
    st.assume(shape)
    digits = fresh("ipv6_port_digits", StrS)
    tail = fresh("ipv6_tail", StrS)
    has_port = z3.And(z3.PrefixOf(z3.StringVal(":"), rest), z3.Length(rest) > 1, z3.InRe(z3.SubString(rest, 1, 1), DIGITS))
    s_p = st.fork()
    s_p.assume(has_port, rest == z3.Concat(z3.StringVal(":"), digits, tail), z3.InRe(digits, z3.Plus(DIGITS)),
               z3.Or(z3.Length(tail) == 0, z3.Not(z3.InRe(z3.SubString(tail, 0, 1), DIGITS))))
    m1 = s_p.new_obj("re.Match", _groups=VTuple([VStr(host), VStr(z3.Concat(z3.StringVal(":"), digits)), VStr(digits)]))
    out.append(Res(s_p, m1))
    st.assume(z3.Not(has_port))
    m2 = st.new_obj("re.Match", _groups=VTuple([VStr(host), NONE, NONE]))
    out.append(Res(st, m2))
    return out


@R.model("re.Match")
class MatchModel:
    """match object: groups()"""

    def getattr(self, E, st, obj, name):
        return None

    def m_groups(self, E, st, obj, args, kw):
        return [Res(st, st.get(obj, "_groups"))]

    def m_group(self, E, st, obj, args, kw):
        g = st.get(obj, "named")
        k = z3.simplify(args[0].e).as_string()
        return [Res(st, g[k])]

    methods = {"groups": m_groups, "group": m_group}


@R.spec("re.match", doc="re.match(pattern, s) for the literal patterns used by the repo (see ipv6_match)")
def re_match(E, st, args, kw):
    pat = z3.simplify(args[0].e)
    if z3.is_string_value(pat) and pat.as_string() == IPV6_PATTERN:
        return ipv6_match(E, st, args[1])
    raise Unsupported("re.match with pattern %s" % pat)


# ------------------------------------------------------------------------------------------------------------------------------------------
# the uri regular expression of core.URI

URI_PATTERN = r"(?P<protocol>[Pp][Yy][Rr][Oo][a-zA-Z]*):(?P<object>\S+?)(@(?P<location>.+))?$"
LETTER = z3.Union(z3.Range("a", "z"), z3.Range("A", "Z"))
PROTO_RE = z3.Concat(z3.Union(z3.Re("P"), z3.Re("p")), z3.Union(z3.Re("Y"), z3.Re("y")), z3.Union(z3.Re("R"), z3.Re("r")), z3.Union(z3.Re("O"), z3.Re("o")), z3.Star(LETTER))
_WS = [chr(c) for c in range(0x30000) if chr(c).isspace()]      # the characters \s matches in a str pattern (sre: Py_UNICODE_ISSPACE)
SPACE = z3.Union(*[z3.Re(z3.StringVal(c)) for c in _WS])


def no_space(s):
    return z3.Not(z3.InRe(s, z3.Concat(z3.Full(z3.ReSort(StrS)), SPACE, z3.Full(z3.ReSort(StrS)))))


def uri_split(u):
    """(matches, protocol, object, has_location, location) of uriRegEx.match(u) for a text u WITHOUT newline characters:
    protocol = the text before the first ':' (must be PYRO + letters, any case); rest = the text after it;
    j = the first '@' of rest at an index >= 1; if it exists and is not the last character: object = rest[:j], location = rest[j+1:];
    otherwise object = rest, no location; the object is non-empty and contains no whitespace (the lazy \\S+? cannot step over one)."""
    c = z3.IndexOf(u, z3.StringVal(":"), 0)
    proto = z3.SubString(u, 0, c)
    rest = z3.SubString(u, c + 1, z3.Length(u) - c - 1)
    j = z3.IndexOf(rest, z3.StringVal("@"), 1)
    split = z3.And(j >= 1, j <= z3.Length(rest) - 2)
    obj = z3.If(split, z3.SubString(rest, 0, j), rest)
    loc = z3.If(split, z3.SubString(rest, j + 1, z3.Length(rest) - j - 1), z3.StringVal(""))
    ok = z3.And(c >= 4, z3.InRe(proto, PROTO_RE), z3.Length(obj) >= 1, no_space(obj))
    return ok, proto, obj, split, loc


@R.spec("re.compile", doc="re.compile(<the uri pattern of core.URI>): a pattern object whose match() follows specs.strings.uri_split")
def re_compile(E, st, args, kw):
    pat = z3.simplify(args[0].e)
    if z3.is_string_value(pat) and pat.as_string() == URI_PATTERN:
        return [Res(st, st.new_obj("re.Pattern", pattern=URI_PATTERN))]
    raise Unsupported("re.compile with pattern %s" % pat)


@R.model("re.Pattern")
class PatternModel:
    """compiled uri pattern: match(text) is None or a match object with the named groups protocol / object / location (None when absent)"""

    def getattr(self, E, st, obj, name):
        return None

    def m_match(self, E, st, obj, args, kw):
        u = args[0]
        ok, proto, o, split, loc = uri_split(u.e)
        out = []
        for s2, matched in E.branch(st, ok):
            if not matched:
                out.append(Res(s2, NONE))
                continue
            m = s2.new_obj("re.Match", named={"protocol": VStr(proto), "object": VStr(o), "location": VOpt(z3.Not(split), VStr(loc))})
            out.append(Res(s2, m))
        return out

    methods = {"match": m_match}


MatchModel.truth = lambda self, E, st, obj: z3.BoolVal(True)
