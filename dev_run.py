import sys, time, importlib
sys.path.insert(0, "/verif")
from pyvc.registry import R
from pyvc import stdlib
from pyvc.engine import Engine
from pyvc.solve import discharge
import z3
mods = sys.argv[1].split(",")
for m in mods:
    importlib.import_module(m)
names = sys.argv[2].split(",") if len(sys.argv) > 2 else list(R.contracts)
E = Engine(R)
t0 = time.time()
for n in names:
    ok = E.verify(R.contracts[n])
    print(n, "generated" if ok else "UNSUPPORTED", len(E.obligations))
for u in E.unsupported:
    print("UNSUPPORTED", u)
print("gen time %.1fs, feas checks %d, stats %s" % (time.time() - t0, E.feas_checks, E.stats))
t0 = time.time()
discharge(E.obligations)
print("solve time %.1fs" % (time.time() - t0))
bad = 0
for ob in E.obligations:
    exp = "sat" if ob.kind in ("canary", "vacuity") else "unsat"
    if ob.result != exp and not (ob.kind == "canary" and ob.result == "unknown"):
        bad += 1
        print("!!", ob.result, ob.backend, "%.2fs" % ob.time, ob.name, getattr(ob, "reason", ""))
        print("    trace:", " ".join(ob.info.get("trace", [])))
        if ob.model and "-m" in sys.argv:
            for k, v in sorted(ob.model.items()):
                if "!" not in k or "-mm" in sys.argv:
                    print("      ", k, "=", v[:200])
print("obligations", len(E.obligations), "unexpected", bad)
